---------------------------- MODULE Judge_Unpack ----------------------------
(* Evaluates the L0 predicates of Unpack.tla on outcomes *observed from the  *)
(* real code* that differ from the model's prediction (direction B for       *)
(* mismatching replays).  One @@ record per observation: the verdict on the  *)
(* observed outcome and the verdict the L1 model predicts for the same input *)
(* (needed for the "model predicts a containing witness" rule of DESIGN 3).  *)
EXTENDS MC_Unpack

Obs == ndJsonDeserialize("mismatch.ndjson")

ObsFS(o) == FromSnapshot(Seq2Set(o.fs)) @@ (Root :> FS0[Root])

JudgeOne(i) ==
  LET o == Obs[i]
      l1 == Run(FS0, <<>>, o.hist)
      v0 == Verdict(o.hist, o.st, ObsFS(o), l1)
      \* byte-offset reader faults / truncations (C12: success means the whole archive; C01: nothing outside changes)
      \* (every field below already exists in v0: EXCEPT, not @@, which would keep v0's value)
      vf == [v0 EXCEPT !.c12 = v0.c12 /\ o.fault_silent = 0,
                       !.w12 = v0.w12 \cup (IF o.fault_silent = 0 THEN {} ELSE Seq2Set(o.fault_notes)),
                       !.c01 = v0.c01 /\ o.fault_outside = 0 /\ o.mut_outside = 0,
                       !.w01 = v0.w01 \cup (IF o.fault_outside = 0 THEN {} ELSE Seq2Set(o.fault_notes))
                                      \cup (IF o.mut_outside = 0 THEN {} ELSE Seq2Set(o.mut_notes)),
                       !.kf01 = IF o.fault_outside = 0 /\ o.mut_outside = 0 THEN v0.kf01 ELSE "",
                       \* corrupted variants of the archive (C19: none panics or hangs; C01: none changes anything outside dst)
                       !.c19 = o.st # "panic" /\ o.mut_bad = 0,
                       !.w19 = (IF o.st = "panic" THEN {o.err} ELSE {}) \cup (IF o.mut_bad = 0 THEN {} ELSE Seq2Set(o.mut_notes))]
  IN PrintT("@@" \o ToJson([fam |-> "judge", idx |-> i,
                            v |-> vf,
                            l1 |-> [st |-> l1.st, why |-> l1.why, v |-> Verdict(o.hist, l1.st, l1.fs, l1)]]))

ASSUME \A i \in DOMAIN Obs : JudgeOne(i)
=============================================================================
