---------------------------- MODULE Judge_Unpack ----------------------------
(* Evaluates the L0 predicates of Unpack.tla on outcomes *observed from the  *)
(* real code* that differ from the model's prediction (direction B for       *)
(* mismatching replays).  One @@ record per observation: the verdict on the  *)
(* observed outcome and the verdict the L1 model predicts for the same input *)
(* (needed for the "model predicts a containing witness" rule of DESIGN 3).  *)
EXTENDS MC_Unpack

Obs == ndJsonDeserialize("mismatch.ndjson")

ObsFS(o) == FromSnapshot(Seq2Set(o.fs)) @@ (Root :> FS0[Root])

JudgeOne(i) ==
  LET o == Obs[i]
      l1 == Run(FS0, <<>>, o.hist)
  IN PrintT("@@" \o ToJson([fam |-> "judge", idx |-> i,
                            v |-> Verdict(o.hist, o.st, ObsFS(o), l1),
                            l1 |-> [st |-> l1.st, why |-> l1.why, v |-> Verdict(o.hist, l1.st, l1.fs, l1)]]))

ASSUME \A i \in DOMAIN Obs : JudgeOne(i)
=============================================================================
