----------------------------- MODULE UnpackOps -----------------------------
(***************************************************************************)
(* slug.Unpack (slug.go, internal/unpackinfo) as a state machine that folds *)
(* archive entries over a filesystem.                                       *)
(*                                                                         *)
(*  L1  Proc / Finish : the algorithm as coded, one action per entry, with  *)
(*      named deviations DEV_* (TRUE = the behaviour of the pinned commit,  *)
(*      FALSE = the repaired behaviour).                                    *)
(*  L0  the property predicates C01 / C04 / C15 / C12 over an *outcome*     *)
(*      (status, filesystem), independent of how it was produced.  They are *)
(*      evaluated on the model's outcome during exploration and on the      *)
(*      real code's outcome by Judge_Unpack.                                *)
(***************************************************************************)
EXTENDS FS, Json

CONSTANTS
  Alphabet,              \* set of archive entries the explorer may append
  MaxLen,                \* max entries per archive
  Emit,                  \* BOOLEAN: print one @@ record per terminal transition
  FS0,                   \* initial filesystem (arena)
  Dst,                   \* destination directory (clean absolute path in FS0)
  SP,                    \* name pairs <<short,long>>: short is a string prefix of long
  Allow,                 \* allow-listed link targets (clean absolute paths)
  DEV_StrPrefix,         \* containment by strings.HasPrefix (candidate 1)
  DEV_DirNotCreated,     \* a directory entry does not create its directory (candidate 4)
  DEV_CreateThroughLink, \* os.Create follows a link already at the entry's path (candidate 2, write half)
  DEV_AbsInside,         \* an absolute link target inside dst is accepted (candidate 3)
  DEV_DirThroughLink,    \* a directory entry is applied through a link already at its path
  DEV_WalkRawName,       \* the symlink walk runs over the raw entry name (a missing component before ".." ends it too early)
  DEV_LinkRawName,       \* link targets validated from the raw entry name ("/a" taken as absolute)
  DEV_LinkOneSlash       \* only one leading slash stripped before validating ("//a" still taken as absolute; fix 12b740b)

\* entry: [name : raw tokens, k : "f"|"d"|"l"|"g"|"p"|"h", m, t, c, tgt : raw tokens]
Representable == {"f", "d", "l"}
Harmless == {"g"}                       \* PAX global header: prescribes nothing

Contains(p, q) == IF DEV_StrPrefix THEN StrHasPrefix(SP, p, q) ELSE SegHasPrefix(p, q)

-----------------------------------------------------------------------------
\* L1: NewUnpackInfo
StripSlash(name) == IF IsAbsT(name) THEN Tail(name) ELSE name
EntryPath(name) == JoinClean(Dst, StripSlash(name))
RECURSIVE StripSlashes(_)
StripSlashes(name) == IF IsAbsT(name) THEN StripSlashes(Tail(name)) ELSE name
LinkName(name0) == IF DEV_LinkRawName THEN name0 ELSE IF DEV_LinkOneSlash THEN StripSlash(name0) ELSE StripSlashes(name0)

\* the Lstat walk over strings.Split(name, "/")[0 .. n-2];
\* "clear" | "link" | "error" (an Lstat failure that is not NotExist)
RECURSIVE ThroughLink(_,_,_,_)
ThroughLink(fs, cur, comps, i) ==
  IF i > Len(comps) - 1 THEN "clear"
  ELSE LET nxt == JoinClean(cur, <<comps[i]>>)
           r == ResAbs(fs, nxt, FALSE)
       IN IF IsNotExist(r) THEN "clear"
          ELSE IF r.st # "ok" THEN "error"
          ELSE IF fs[r.p].k = "l" THEN "link"
          ELSE ThroughLink(fs, nxt, comps, i + 1)

AllowListed(absTarget) == \E a \in Allow : Under(absTarget, a)

\* Packer.validSymlink(dst, header.Name, header.Linkname): note the *raw* name
LinkAbsTarget(name0, tgt) ==
  LET name == LinkName(name0)
      absPath == IF IsAbsT(name) THEN JoinClean(Root, name) ELSE JoinClean(Dst, name)
  IN IF IsAbsT(tgt) THEN JoinClean(Root, tgt) ELSE JoinClean(Parent(absPath), tgt)
\* a relative target must stay inside dst without climbing above it (fix d958749)
LinkLocal(name0, tgt) ==
  LET name == LinkName(name0)
      absPath == IF IsAbsT(name) THEN JoinClean(Root, name) ELSE JoinClean(Dst, name)
      dir == Parent(absPath)
  IN Under(dir, Dst) /\ Under(JoinClean(<<"#root">> \o SubSeq(dir, Len(Dst) + 1, Len(dir)), tgt), <<"#root">>)
ValidSymlink(name, tgt) ==
  LET at == LinkAbsTarget(name, tgt) IN
  \/ (Contains(at, Dst) /\ (IF IsAbsT(tgt) THEN DEV_AbsInside ELSE LinkLocal(name, tgt)))
  \/ AllowListed(at)

R(fs, dirs, st, why) == [fs |-> fs, dirs |-> dirs, st |-> st, why |-> why]

\* one archive entry; st in run / err / illegal
Proc(fs, dirs, e) ==
  IF e.name = <<>> \/ e.name = <<"">> THEN R(fs, dirs, "run", "skip")          \* header.Name == ""
  ELSE
  LET path == EntryPath(e.name) IN
  IF ~Contains(path, Dst) THEN R(fs, dirs, "illegal", "traversal")
  ELSE LET tl == ThroughLink(fs, Dst, IF DEV_WalkRawName THEN e.name ELSE SubSeq(path, Len(Dst) + 1, Len(path)), 1) IN
  IF tl # "clear" THEN R(fs, dirs, "illegal", "through-" \o tl)
  ELSE IF e.k \notin Representable \cup Harmless THEN R(fs, dirs, "illegal", "type")
  ELSE
  LET mk == MkdirAll(fs, Parent(path)) IN
  IF ~mk.ok THEN R(mk.fs, dirs, "err", "mkdirall")
  ELSE IF e.k = "l" THEN
       IF ~ValidSymlink(e.name, e.tgt) THEN R(mk.fs, dirs, "illegal", "link-external")
       ELSE LET s == Symlink(mk.fs, e.tgt, path) IN
            R(s.fs, dirs, IF s.ok THEN "run" ELSE "err", "symlink")
  ELSE IF e.k = "d" THEN
       IF DEV_DirNotCreated
       THEN R(mk.fs, Append(dirs, [p |-> path, m |-> e.m, t |-> e.t]), "run", "dir")
       ELSE LET ls == Lstat(mk.fs, path)
                f1 == IF ~DEV_DirThroughLink /\ ls.ok /\ ls.n.k = "l" THEN Remove(mk.fs, path).fs ELSE mk.fs
                md == MkdirAll(f1, path) IN
            IF ~md.ok THEN R(md.fs, dirs, "err", "mkdir")
            ELSE R(md.fs, Append(dirs, [p |-> path, m |-> e.m, t |-> e.t]), "run", "dir")
  ELSE IF e.k = "g" THEN R(mk.fs, dirs, "run", "pax")
  ELSE LET ls == Lstat(mk.fs, path)
           f1 == IF ~DEV_CreateThroughLink /\ ls.ok /\ ls.n.k = "l" THEN Remove(mk.fs, path).fs ELSE mk.fs
           c0 == Create(f1, path)
           \* "allow later entries to clobber earlier ones even if the file has perms that don't allow
           \* overwriting": on a permission error chmod 0600 and try once more (dead code for a privileged caller)
           c == IF ~c0.ok /\ c0.perm THEN Create(Chmod(c0.fs, path, 600), path) ELSE c0 IN
       IF ~c.ok THEN R(c.fs, dirs, "err", "create")
       ELSE LET w == [c.fs EXCEPT ![c.at].c = e.c]
                r == ChmodChtimes(w, path, e.m, e.t)
            IN R(r.fs, dirs, IF r.ok THEN "run" ELSE "err", "file")

\* the deferred directory restore, in archive order, NotExist ignored
RECURSIVE RestoreDirs(_,_)
RestoreDirs(fs, dirs) ==
  IF dirs = <<>> THEN [fs |-> fs, st |-> "ok"]
  ELSE LET d == Head(dirs)  r == ChmodChtimes(fs, d.p, d.m, d.t) IN
       IF r.ok \/ r.noent THEN RestoreDirs(r.fs, Tail(dirs))
       ELSE [fs |-> r.fs, st |-> "err"]

\* a whole archive from (f, d): used by the judge and by the trace spec
RECURSIVE Run(_,_,_)
Run(f, d, h) ==
  IF h = <<>> THEN LET r == RestoreDirs(f, d) IN [fs |-> r.fs, st |-> r.st, why |-> "end", at |-> 0]
  ELSE LET r == Proc(f, d, Head(h)) IN
       IF r.st # "run" THEN [fs |-> r.fs, st |-> r.st, why |-> r.why, at |-> Len(h)]
       ELSE Run(r.fs, r.dirs, Tail(h))

-----------------------------------------------------------------------------
\* L0: property predicates over an outcome (status s, filesystem f) of history h

\* C01: everything outside the destination is exactly as before
OutsideChanged(f) ==
  { p \in (DOMAIN f) \cup (DOMAIN FS0) :
       ~Under(p, Dst) /\ ~(p \in DOMAIN f /\ p \in DOMAIN FS0 /\ f[p] = FS0[p]) }

\* C04: links under the destination resolve inside it (or are allow-listed);
\* absolute targets never materialise
LinkLexTarget(p, tg) == IF IsAbsT(tg) THEN JoinClean(Root, tg) ELSE JoinClean(Parent(p), tg)
LinksUnder(f) == { p \in DOMAIN f : StrictlyUnder(p, Dst) /\ f[p].k = "l" }
Escaping(f) ==
  { p \in LinksUnder(f) : ~AllowListed(LinkLexTarget(p, f[p].tgt))
                          /\ LET r == ResLex(f, Parent(p), f[p].tgt, FUEL) IN r # LOOPED /\ ~Under(r, Dst) }
AbsLinks(f) ==
  { p \in LinksUnder(f) : IsAbsT(f[p].tgt) /\ ~AllowListed(LinkLexTarget(p, f[p].tgt)) }

\* C15: a successful run over a Consistent archive leaves RefInterp(archive)
Norm(n) == SelectSeq(n, LAMBDA x : x \notin {"", "."})
EPaths(h) == { Norm(h[i].name) : i \in { j \in DOMAIN h : h[j].k \in Representable } }
KindsAt(h, p) == { h[i].k : i \in { j \in DOMAIN h : h[j].k \in Representable /\ Norm(h[j].name) = p } }
ProperPrefix(a, b) == Len(a) < Len(b) /\ SubSeq(b, 1, Len(a)) = a
Consistent(h) ==
  /\ \A i \in DOMAIN h : /\ h[i].k \in Representable \cup Harmless
                         /\ ~HasDotDot(h[i].name)
                         /\ (h[i].k \in Representable => Norm(h[i].name) # <<>>)
                         /\ (h[i].k \in Harmless => Len(Norm(h[i].name)) = 1)
                         /\ (h[i].k = "l" => ~IsAbsT(h[i].tgt)       \* a link that stays inside the archive root at its own position
                               /\ Under(JoinClean(<<"#root">> \o Parent(Norm(h[i].name)), h[i].tgt), <<"#root">>))
  \* one kind per path - except that a link may be replaced by a later file or directory
  \* ("for files and directories the last entry for a path wins")
  /\ \A p \in EPaths(h) : \/ Cardinality(KindsAt(h, p)) = 1
                           \/ /\ KindsAt(h, p) \in { {"l", "f"}, {"l", "d"} }
                              /\ \A i, j \in DOMAIN h : (h[i].k \in Representable /\ h[j].k \in Representable /\ Norm(h[i].name) = p /\ Norm(h[j].name) = p
                                                           /\ h[i].k = "l" /\ h[j].k # "l") => i < j
                              /\ \A q \in EPaths(h) : ~ProperPrefix(p, q)
  /\ \A p \in EPaths(h), q \in EPaths(h) : ProperPrefix(p, q) => KindsAt(h, p) = {"d"}
  /\ \A i, j \in DOMAIN h : (i # j /\ h[i].k = "l" /\ h[j].k = "l") => Norm(h[i].name) # Norm(h[j].name)
  /\ \A i \in DOMAIN h : h[i].k = "g" => Norm(h[i].name) \notin EPaths(h)
LastIdx(h, p) == CHOOSE i \in DOMAIN h : /\ h[i].k \in Representable /\ Norm(h[i].name) = p
                                         /\ \A j \in DOMAIN h : (h[j].k \in Representable /\ Norm(h[j].name) = p) => j <= i
Implied(h) == (UNION { { SubSeq(p, 1, k) : k \in 1..Len(p) } : p \in EPaths(h) }) \ EPaths(h)
Want(h, p) == LET e == h[LastIdx(h, p)] IN
  IF e.k = "f" THEN FileNode(e.m, e.t, e.c) ELSE IF e.k = "d" THEN DirNode(e.m, e.t) ELSE LinkNode(e.tgt)
RelUnder(f) == { SubSeq(p, Len(Dst) + 1, Len(p)) : p \in { q \in DOMAIN f : StrictlyUnder(q, Dst) } }
C15Diffs(f, h) ==
  LET have == RelUnder(f)  want == EPaths(h) \cup Implied(h) IN
  { <<"missing", p>> : p \in want \ have }
  \cup { <<"extra", p>> : p \in have \ want }
  \cup { <<"differs", p>> : p \in { q \in EPaths(h) \cap have : f[Dst \o q] # Want(h, q) } }
  \cup { <<"notdir", p>> : p \in { q \in Implied(h) \cap have : f[Dst \o q].k # "d" } }
HasUnrepresentable(h) == \E i \in DOMAIN h : h[i].k \notin Representable \cup Harmless /\ h[i].name \notin {<<>>, <<"">>}
\* directory modes in h keep owner rwx (7xx): then acceptance is required under any privilege
DirsTraversable(h) == \A i \in DOMAIN h : h[i].k = "d" => h[i].m \div 100 = 7

\* Known-finding classes (DESIGN 3): a predicate over the *witness*, naming one
\* failing shape.  "" = unexplained.
KF04Class(f, p) ==
  LET tg == f[p].tgt  lex == LinkLexTarget(p, tg) IN
  IF IsAbsT(tg) /\ Under(lex, Dst) THEN "KF-C04-absolute-target-inside"
  ELSE IF ~IsAbsT(tg) /\ Under(lex, Dst) THEN "KF-C04-lexical-vs-physical"
  ELSE ""
\* C01: every changed outside path is the physical target of a link that passes
\* the lexical test (or lies below / is the parent of such a target)
KF01Class(f, w) ==
  IF w # {} /\ \A q \in w : \E p \in Escaping(f) :
        KF04Class(f, p) = "KF-C04-lexical-vs-physical"
        /\ LET r == ResLex(f, Parent(p), f[p].tgt, FUEL) IN Under(q, r) \/ q = Parent(r)
  THEN "KF-C01-through-lexically-valid-link" ELSE ""

\* the verdict record for outcome (s, f) of history h; lst = the L1 prediction for h
\* (used only for "same state at the rejection point" clauses)
Verdict(h, s, f, l1) ==
  LET w01 == OutsideChanged(f)
      w04 == Escaping(f) \cup AbsLinks(f)
      cons == Consistent(h)
      d15 == IF s = "ok" /\ cons THEN C15Diffs(f, h) ELSE {}
      \* a policy rejection must be distinguishable: same filesystem as the model's
      \* rejection point but a different status
      i04 == l1.st = "illegal" /\ l1.why = "link-external" /\ f = l1.fs /\ s # "illegal"
      i12 == l1.st = "illegal" /\ f = l1.fs /\ s # "illegal"
      \* C12 "an Unpack that returns success has materialised the whole archive", for any history: a link entry
      \* that is the last entry at its path, with nothing named below it, is there with its recorded target
      lost12 == IF s # "ok" THEN {} ELSE
                { i \in DOMAIN h : /\ h[i].k = "l" /\ ~HasDotDot(h[i].name) /\ Norm(h[i].name) # <<>>
                                   /\ \A j \in DOMAIN h : (j > i /\ h[j].k \in Representable) => Norm(h[j].name) # Norm(h[i].name)
                                   /\ \A j \in DOMAIN h : ~ProperPrefix(Norm(h[i].name), Norm(h[j].name))
                                   /\ LET p == Dst \o Norm(h[i].name) IN ~(p \in DOMAIN f /\ f[p].k = "l" /\ f[p].tgt = h[i].tgt) }
      acc15 == cons /\ DirsTraversable(h) /\ s # "ok"          \* must-accept
      rej15 == HasUnrepresentable(h) /\ s = "ok" /\ l1.st = "illegal" /\ l1.why = "type"
  IN [ c01 |-> w01 = {},
       c04 |-> w04 = {} /\ ~i04,
       c15 |-> d15 = {} /\ ~acc15 /\ ~rej15,
       c12 |-> ~i12 /\ lost12 = {},
       w01 |-> { CatS(p) : p \in w01 },
       w04 |-> { CatS(p) : p \in w04 },
       w15 |-> { d[1] \o ":" \o CatS(d[2]) : d \in d15 }
                 \cup (IF acc15 THEN {"not-accepted"} ELSE {}) \cup (IF rej15 THEN {"unrepresentable-accepted"} ELSE {}),
       kf01 |-> KF01Class(f, w01),
       kf04 |-> IF i04 \/ w04 = {} THEN "" ELSE
                LET cl == { KF04Class(f, p) : p \in w04 } IN
                IF "" \in cl THEN "" ELSE IF Cardinality(cl) = 1 THEN CHOOSE x \in cl : TRUE
                ELSE "KF-C04-absolute-target-inside+KF-C04-lexical-vs-physical",
       w12 |-> (IF i12 THEN {"policy rejection reported as a plain error"} ELSE {})
               \cup { "link entry " \o ToString(i) \o " is not there with its recorded target although Unpack succeeded" : i \in lost12 },
       kf15 |-> "", kf12 |-> "", c19 |-> s # "panic", w19 |-> {}, kf19 |-> "",
       cons |-> cons ]
=============================================================================
