SPECIFICATION Spec
CONSTANTS
  NONE = "none"
  Pkgs = {"P1", "P2"}
  Subs <- MCSubs
  Finders = {"F1"}
  RegPkgs = {}
  Vers = {1, 2}
  AllowedSets <- MCAllowedQ
  Callers = {"c1", "c2"}
  Adds <- MCAddsR
  Contents = {1}
  MetaFlags = {FALSE}
  DepFlags = {FALSE}
  LocalRels <- MCLocalRelsQ
  MaxEdges = 1
  MaxDeps = 2
  MaxAdds = 1
  MaxFaults = 0
  Faults = {}
  DiagKinds = {"none"}
  Concurrent = TRUE
  Emit = FALSE
INVARIANTS OnceFetch OnceVers OnceSrc OnceAn QueuesBounded
PROPERTIES Terminates EachDrainEnds
CHECK_DEADLOCK FALSE
