---------------------------- MODULE Live_Builder ----------------------------
(***************************************************************************)
(* Liveness of the Builder design (C14 "always terminates"), checked by     *)
(* TLC under weak fairness of Next on bounded worlds that include cycles    *)
(* in the dependency graph (P1 -> P2 -> P1, a package depending on itself,  *)
(* registry hops back to an analysed package): every drain a caller starts  *)
(* ends, and the builder is eventually quiescent for good.  No VIEW here    *)
(* (TLC's liveness checking needs the full state graph).                    *)
(***************************************************************************)
EXTENDS MC_Builder

Terminates == <>[]Quiescent
EachDrainEnds == \A c \in Callers : (pc[c] # "idle") ~> (pc[c] = "idle")
\* the queues never grow beyond what the bounded world can name (no runaway re-queueing)
QueuesBounded == Len(pendRem) + Len(pendReg) <= MaxAdds * Cardinality(Callers) + MaxEdges + 1
=============================================================================
