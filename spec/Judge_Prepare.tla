---------------------------- MODULE Judge_Prepare ----------------------------
(* C10 / C03 (bundle half) on what the real builder left of a fetched package. *)
EXTENDS MC_Prepare
Obs == ndJsonDeserialize("mismatch.ndjson")
JudgeOne(i) ==
  LET o == Obs[i]
      f0 == FromSnapshot(Seq2Set(o.tree))
      f == FromSnapshot(Seq2Set(o.fs)) @@ (Root :> D7)
      l1 == PrepRun(f0, LinesP(o.rules), HasRF(f0))
      v == PrepVerdict(f0, o.rules, o.st, f, Seq2Set(o.outside_changed), o.tmp_left)
      \* what is compared between observation and prediction: paths, kinds, file modes and contents, link targets
      \* (directory modes and times inside the package change while entries are removed)
      Shape(g) == { <<p, g[p].k, IF g[p].k = "f" THEN <<g[p].m, g[p].c>> ELSE IF g[p].k = "l" THEN g[p].tgt ELSE <<>> >> : p \in DOMAIN g }
  IN PrintT("@@" \o ToJson([fam |-> "judge", idx |-> i,
        same |-> (o.st = l1.st /\ (l1.st = "ok" => Shape(f) = Shape(l1.fs))),
        v |-> v @@ [kf10 |-> KF10Class(f0, o.rules, o.st, f), kf03 |-> "", kf19 |-> ""],
        l1 |-> [st |-> l1.st, why |-> "", v |-> PrepVerdict(f0, o.rules, l1.st, l1.fs, {}, FALSE)]]))
ASSUME \A i \in DOMAIN Obs : JudgeOne(i)
=============================================================================
