----------------------------- MODULE Trace_Unpack -----------------------------
(***************************************************************************)
(* Direction B for the Unpack family: traces recorded from the real         *)
(* slug.Unpack (hook verifEntryBoundary: the destination arena is projected *)
(* before every entry, before the deferred directory restore, and at        *)
(* return) are validated against the L1 actions of UnpackOps, and the L0     *)
(* predicates are evaluated on every *recorded* intermediate state.         *)
(*                                                                         *)
(* Events (ndjson, many traces concatenated):                               *)
(*   begin   tr, hist             a new trace: the whole archive            *)
(*   before  tr, i, fs            about to process entry i (state after i-1)*)
(*   restore tr, fs               all entries done, directories not restored*)
(*   end     tr, st, fs           Unpack returned                           *)
(* The monitor never gets stuck: when a recorded state differs from the     *)
(* model's, the trace is marked rejected and the model re-synchronises on    *)
(* the recorded state, so that the rest of the trace is still checked.      *)
(***************************************************************************)
EXTENDS MC_Unpack, TLCExt

TraceLog == ndJsonDeserialize("trace.ndjson")

VARIABLES l, pos, ok, worst
tvars == <<fs, dirs, st, hist, l, pos, ok, worst>>

ObsFS(rec) == FromSnapshot(Seq2Set(rec.fs)) @@ (Root :> FS0[Root])
\* per-step verdicts on the recorded state: the C01 / C04 predicates
StepBad(f) == [c01 |-> { CatS(p) : p \in OutsideChanged(f) },
               c04 |-> { CatS(p) : p \in Escaping(f) \cup AbsLinks(f) },
               kf01 |-> KF01Class(f, OutsideChanged(f)),
               kf04 |-> IF Escaping(f) \cup AbsLinks(f) = {} THEN "" ELSE
                        LET cl == { KF04Class(f, p) : p \in Escaping(f) \cup AbsLinks(f) } IN
                        IF "" \in cl THEN "" ELSE IF Cardinality(cl) = 1 THEN CHOOSE x \in cl : TRUE
                        ELSE "KF-C04-absolute-target-inside+KF-C04-lexical-vs-physical"]
Merge(w, b) == [c01 |-> w.c01 \cup b.c01, c04 |-> w.c04 \cup b.c04,
                kf01 |-> IF b.c01 = {} THEN w.kf01 ELSE IF w.c01 = {} \/ w.kf01 = b.kf01 THEN b.kf01 ELSE "",
                kf04 |-> IF b.c04 = {} THEN w.kf04 ELSE IF w.c04 = {} \/ w.kf04 = b.kf04 THEN b.kf04 ELSE ""]
Clean0 == [c01 |-> {}, c04 |-> {}, kf01 |-> "", kf04 |-> ""]

TInit == fs = FS0 /\ dirs = <<>> /\ st = "idle" /\ hist = <<>> /\ l = 1 /\ pos = 0 /\ ok = TRUE /\ worst = Clean0

IsEvent(n) == l <= Len(TraceLog) /\ TraceLog[l].ev = n /\ l' = l + 1

TraceBegin ==
  /\ IsEvent("begin")
  /\ fs' = FS0 /\ dirs' = <<>> /\ st' = "run" /\ hist' = TraceLog[l].hist /\ pos' = 0 /\ ok' = TRUE /\ worst' = Clean0

\* about to process entry i: the recorded state is the state after i-1 entries
TraceBefore ==
  /\ IsEvent("before")
  /\ LET rec == TraceLog[l]
         f == ObsFS(rec)
         match == st = "run" /\ rec.i = pos + 1 /\ Snapshot(fs) = Snapshot(f)
         r == Proc(f, dirs, hist[rec.i])                    \* L1 action on the (re-synchronised) state
     IN /\ ok' = (ok /\ match)
        /\ worst' = Merge(worst, StepBad(f))
        /\ fs' = r.fs /\ dirs' = r.dirs /\ st' = r.st /\ pos' = rec.i
  /\ UNCHANGED hist

TraceRestore ==
  /\ IsEvent("restore")
  /\ LET f == ObsFS(TraceLog[l])
         match == st = "run" /\ pos = Len(hist) /\ Snapshot(fs) = Snapshot(f)
         r == RestoreDirs(f, dirs)
     IN /\ ok' = (ok /\ match)
        /\ worst' = Merge(worst, StepBad(f))
        /\ fs' = r.fs /\ st' = r.st /\ dirs' = <<>>
  /\ UNCHANGED <<hist, pos>>

TraceEnd ==
  /\ IsEvent("end")
  /\ LET rec == TraceLog[l]
         f == ObsFS(rec)
         match == st = rec.st /\ Snapshot(fs) = Snapshot(f)
         l1 == Run(FS0, <<>>, hist)
         w == Merge(worst, StepBad(f))
         v == Verdict(hist, rec.st, f, l1)
     IN /\ PrintT("@@" \o ToJson([fam |-> "trace", tr |-> rec.tr, accepted |-> (ok /\ match),
                                  steps |-> [c01 |-> w.c01 = {}, w01 |-> w.c01, kf01 |-> w.kf01,
                                             c04 |-> w.c04 = {}, w04 |-> w.c04, kf04 |-> w.kf04],
                                  v |-> v, l1 |-> [st |-> l1.st, why |-> l1.why, v |-> Verdict(hist, l1.st, l1.fs, l1)]]))
        /\ ok' = (ok /\ match) /\ worst' = w
        /\ fs' = f /\ st' = "idle"
  /\ UNCHANGED <<dirs, hist, pos>>

TNext == TraceBegin \/ TraceBefore \/ TraceRestore \/ TraceEnd
TSpec == TInit /\ [][TNext]_tvars
\* every line of the file was consumed
TraceConsumed == TLCGet("stats").diameter - 1 = Len(TraceLog)
=============================================================================
