-------------------------------- MODULE Addr --------------------------------
(***************************************************************************)
(* sourceaddrs: the address algebra (C11) and the address syntax (C06 C07). *)
(*                                                                         *)
(* Algebra.  An address is a package plus a stack of path names.  L0        *)
(* RefResolve applies a relative path segment by segment: "." keeps, ".."   *)
(* pops, a name pushes; a remote / registry base fails on pop-from-empty,   *)
(* a local base accumulates leading "..".  Expected results are emitted as  *)
(* the canonical *strings* the library must print, so that the binding is    *)
(* an equality test on the public API.                                      *)
(*                                                                         *)
(* Syntax.  Remote addresses are assembled from fields (explicit type,      *)
(* scheme, userinfo, host, path, query, fragment, sub-path) with TLC's      *)
(* string concatenation; for each the documented grammar gives the expected *)
(* accept / reject verdict and, for accepted ones, the accessor record      *)
(* (source type, scheme, query, sub-path) on which the transport policy     *)
(* (C07) is evaluated.  Fields whose canonical escaped form net/url decides *)
(* are tagged, which is what the C06 known-finding predicates talk about.   *)
(***************************************************************************)
EXTENDS Naturals, Sequences, FiniteSets, TLC, Json

CONSTANTS MaxSub,        \* depth of base sub-paths
          MaxRel,        \* length of relative paths (names after the leading ..s)
          MaxUps,        \* leading ".." count of relative paths
          Part,          \* which part of the module emits: "algebra" | "syntaxq" | "syntax"
          SliceN, SliceI, \* this TLC process emits the partitions with index % SliceN = SliceI
          DEV_LocalCollapse   \* local+local resolution yields "./." / "./.." (candidate 12)

RECURSIVE JoinS(_,_)
JoinS(s, sep) == IF s = <<>> THEN "" ELSE IF Len(s) = 1 THEN s[1] ELSE s[1] \o sep \o JoinS(Tail(s), sep)
SeqsUpTo(S, n) == UNION { [1..k -> S] : k \in 0..n }
Ups(n) == [i \in 1..n |-> ".."]

-----------------------------------------------------------------------------
\* C11: algebra
Names == {"a", "..s"}       \* "..s": a name that begins with two dots is still a name
Stacks(n) == SeqsUpTo(Names, n)

\* a relative (local) address in canonical form: ups leading "..", then names
Rel(u, ns) == [ups |-> u, names |-> ns]
LocalStr(r) ==
  IF r.ups = 0 THEN "./" \o JoinS(r.names, "/")
  ELSE IF r.ups = 1 /\ r.names = <<>> THEN "../"
  ELSE JoinS(Ups(r.ups) \o r.names, "/")
Rels == { Rel(u, ns) : u \in 0..MaxUps, ns \in Stacks(MaxRel) }

\* bases
RemotePkgs == { [str |-> "git::https://example.com/r.git", q |-> ""],
                [str |-> "git::https://example.com/r.git", q |-> "?ref=main"],
                [str |-> "https://example.com/r.tgz", q |-> ""] }
RegPkgs == { "example.com/ns/name/sys", "registry.terraform.io/hashicorp/subnets/cidr" }
SubStr(sub) == IF sub = <<>> THEN "" ELSE "//" \o JoinS(sub, "/")
RemoteStr(p, sub) == p.str \o SubStr(sub) \o p.q
RegStr(p, sub) == p \o SubStr(sub)
FinalStr(p, v, sub) == p \o "@" \o v \o SubStr(sub)

Bases ==
  { [kind |-> "local", rel |-> r] : r \in { x \in Rels : x.ups <= 1 /\ Len(x.names) <= MaxSub } }
  \cup { [kind |-> "remote", pkg |-> p, sub |-> s] : p \in RemotePkgs, s \in Stacks(MaxSub) }
  \cup { [kind |-> "registry", pkg |-> p, sub |-> s] : p \in RegPkgs, s \in Stacks(MaxSub) }
  \cup { [kind |-> "final", pkg |-> p, ver |-> "1.2.3", sub |-> s] : p \in {"example.com/ns/name/sys"}, s \in Stacks(MaxSub) }

BaseStr(b) == CASE b.kind = "local" -> LocalStr(b.rel)
                [] b.kind = "remote" -> RemoteStr(b.pkg, b.sub)
                [] b.kind = "registry" -> RegStr(b.pkg, b.sub)
                [] b.kind = "final" -> FinalStr(b.pkg, b.ver, b.sub)

\* L0: resolution
PopN(stack, n) == SubSeq(stack, 1, Len(stack) - n)
RefResolve(b, r) ==
  IF b.kind = "local" THEN
       LET keep == IF r.ups <= Len(b.rel.names) THEN PopN(b.rel.names, r.ups) ELSE <<>>
           extra == IF r.ups <= Len(b.rel.names) THEN 0 ELSE r.ups - Len(b.rel.names)
       IN [ok |-> TRUE, b |-> [kind |-> "local", rel |-> Rel(b.rel.ups + extra, keep \o r.names)]]
  ELSE IF r.ups > Len(b.sub) THEN [ok |-> FALSE, b |-> b]
  ELSE [ok |-> TRUE, b |-> [b EXCEPT !.sub = PopN(b.sub, r.ups) \o r.names]]

\* L1 deviation of the pinned commit: path.Join collapses to "." / ".." and the
\* "./" prefix patch-up makes "./." / "./.." of it
L1LocalStr(b, r) ==
  LET res == RefResolve(b, r).b.rel IN
  IF DEV_LocalCollapse /\ res.names = <<>> /\ res.ups = 0 THEN "./."
  ELSE IF DEV_LocalCollapse /\ res.names = <<>> /\ res.ups = 1 THEN "./.."
  ELSE LocalStr(res)

ResolveCaseF(b, r, fin) ==
  LET x == RefResolve(b, r) IN
  [fam |-> "addr", op |-> "resolve", final |-> fin, a |-> BaseStr(b), b |-> LocalStr(r),
   expect |-> [ok |-> x.ok, str |-> IF x.ok THEN BaseStr(x.b) ELSE ""],
   l1 |-> [ok |-> x.ok, str |-> IF ~x.ok THEN "" ELSE IF b.kind = "local" THEN L1LocalStr(b, r) ELSE BaseStr(x.b)],
   kind |-> b.kind]
\* registry bases only through the Source route, versioned ones only through the FinalSource route, the others through both
ResolveCases(b, r) == { ResolveCaseF(b, r, fin) : fin \in (IF b.kind = "final" THEN {TRUE} ELSE IF b.kind = "registry" THEN {FALSE} ELSE BOOLEAN) }

\* composition: R(R(a,b),c) = R(a, R(b,c))
ComposeCase(b, r1, r2) ==
  LET x == RefResolve(b, r1)
      y == IF x.ok THEN RefResolve(x.b, r2) ELSE x
      bc == RefResolve([kind |-> "local", rel |-> r1], r2).b.rel
      z == RefResolve(b, bc)
  IN [fam |-> "addr", op |-> "compose", final |-> b.kind = "final", a |-> BaseStr(b), b |-> LocalStr(r1), c |-> LocalStr(r2),
      expect |-> [ok |-> y.ok, str |-> IF y.ok THEN BaseStr(y.b) ELSE ""],
      l1 |-> [ok |-> y.ok, str |-> ""],
      lawholds |-> (y.ok = z.ok /\ (y.ok => y.b = z.b)) \/ (~x.ok /\ z.ok),
      kind |-> b.kind]

\* an absolute second argument is returned unchanged
AbsCase(b, c) ==
  [fam |-> "addr", op |-> "resolve", final |-> b.kind = "final" \/ c.kind = "final", a |-> BaseStr(b), b |-> BaseStr(c),
   expect |-> [ok |-> TRUE, str |-> BaseStr(c)], l1 |-> [ok |-> TRUE, str |-> BaseStr(c)], kind |-> b.kind]

\* the registry indirection: the caller's sub-path joined onto the address the registry returned
JoinCase(reg, rs, real, ls) ==
  [fam |-> "addr", op |-> "join", final |-> FALSE, a |-> RegStr(reg, rs), b |-> RemoteStr(real, ls),
   expect |-> [ok |-> TRUE, str |-> RemoteStr(real, ls \o rs)], l1 |-> [ok |-> TRUE, str |-> RemoteStr(real, ls \o rs)], kind |-> "registry"]

\* spellings of relative paths that are not canonical must be rejected by the parser
RawRel == SeqsUpTo({"a", ".", "..", "..s"}, MaxRel + 1) \ { <<>> }
IsCanonSpelling(toks, trail) ==
  \E r \in Rels : (LocalStr(r) = JoinS(toks, "/") \o (IF trail THEN "/" ELSE ""))
ParseLocalCase(toks, trail) ==
  LET s == JoinS(toks, "/") \o (IF trail THEN "/" ELSE "")
      first == toks[1] IN
  [fam |-> "addr", op |-> "parse", route |-> "source", s |-> s,
   expect |-> IF first \in {".", ".."} THEN (IF IsCanonSpelling(toks, trail) THEN "accept" ELSE "reject") ELSE "any",
   rec |-> [kind |-> "local"], kf06 |-> ""]

AlgebraCases ==
  UNION { ResolveCases(b, r) : b \in Bases, r \in Rels }
  \cup { AbsCase(b, c) : b \in Bases, c \in { x \in Bases : x.kind # "local" /\ Len(x.sub) <= 1 } }
  \cup { JoinCase(reg, rs, real, ls) : reg \in RegPkgs, rs \in Stacks(2), real \in RemotePkgs, ls \in Stacks(2) }
  \cup { ParseLocalCase(t, tr) : t \in RawRel, tr \in BOOLEAN }
ComposeCases ==
  { ComposeCase(b, r1, r2) : b \in { x \in Bases : (x.kind = "local" => Len(x.rel.names) <= 1) /\ (x.kind # "local" => Len(x.sub) <= 2) },
                             r1 \in { x \in Rels : x.ups <= 2 /\ Len(x.names) <= 2 }, r2 \in { x \in Rels : x.ups <= 2 /\ Len(x.names) <= 1 } }

-----------------------------------------------------------------------------
\* C06 / C07: syntax of remote addresses
\* field values carry a tag: "plain" | "case" | "esc" (pre-escaped) | "raw" (needs escaping) | "bad"
F(v, tag) == [v |-> v, tag |-> tag]
Types   == { F("", "none"), F("git::", "git"), F("GIT::", "git"), F("https::", "https"), F("hg::", "hg"), F("http::", "http") }
Schemes == { F("https", "https"), F("ssh", "ssh"), F("HTTPS", "https"), F("http", "http"), F("git", "git") }
Users   == { F("", "none"), F("u@", "user"), F("u:p@", "user"), F(":p@", "user"), F("@", "user") }
Hosts   == { F("example.com", "plain"), F("EXAMPLE.com", "case"), F("example.com:8080", "plain") }
UPaths  == { F("/x.git", "git"), F("/o/x.git", "git"), F("/x.tgz", "arch"), F("/x.tar.gz", "arch"), F("/x.zip", "zip"), F("", "empty"),
             F("/a%2Fb.git", "esc-git"), F("/a b.tgz", "raw-arch"), F("/x.TGZ", "zip") }
Queries == { F("", "none"), F("?ref=main", "ref"), F("?ref=a&ref=b", "ref2"), F("?archive=tgz", "arch"), F("?archive=tar.gz", "arch"),
             F("?archive=zip", "archbad"), F("?checksum=1", "checksum"), F("?depth=1", "other"), F("?", "none"), F("?ref=", "ref"),
             F("?archive=tgz&archive=tgz", "arch2"), F("?archive=tgz&checksum=1", "checksum"), F("?file=m.tar.gz&archive=tar.gz", "archx") }
Frags   == { F("", "none"), F("#frag", "frag") }
SubPs   == { F(<<>>, "none"), F(<<"sub">>, "ok"), F(<<"sub","dir">>, "ok"), F(<<".">>, "bad"), F(<<"..">>, "bad"),
             F(<<"sub","","x">>, "bad"), F(<<"","etc">>, "bad"), F(<<"sub",".","x">>, "bad"), F(<<"a b">>, "raw"), F(<<"a%20b">>, "esc") }

Spell(ty, sc, us, ho, pa, qu, fr, su) ==
  ty.v \o sc.v \o "://" \o us.v \o ho.v \o pa.v \o (IF su.v = <<>> THEN "" ELSE "//" \o JoinS(su.v, "/")) \o qu.v \o fr.v

\* what the accessors must report for an accepted address
SrcType(ty, sc) == IF ty.tag # "none" THEN ty.tag ELSE sc.tag
PredRec(ty, sc, us, ho, pa, qu, fr, su) ==
  [kind |-> "remote", type |-> SrcType(ty, sc), scheme |-> sc.tag, user |-> us.tag # "none",
   qkeys |-> CASE qu.tag = "none" -> {} [] qu.tag \in {"ref", "ref2"} -> {"ref"} [] qu.tag \in {"arch", "arch2", "archbad"} -> {"archive"}
               [] qu.tag = "checksum" -> (IF qu.v = "?checksum=1" THEN {"checksum"} ELSE {"archive", "checksum"})
               [] qu.tag = "archx" -> {"archive", "file"} [] OTHER -> {"depth"},
   qmultikeys |-> IF qu.tag = "ref2" THEN {"ref"} ELSE IF qu.tag = "arch2" THEN {"archive"} ELSE {},
   archive |-> IF qu.tag \in {"arch", "arch2", "archx"} \/ qu.v = "?archive=tgz&checksum=1" THEN "tgz" ELSE IF qu.tag = "archbad" THEN "zip" ELSE "",
   archpath |-> pa.tag \in {"arch", "raw-arch"},
   sub |-> su.v]

\* C07: the transport policy, on an accessor record
Policy(r) ==
  r.kind = "remote" =>
    /\ r.type \in {"git", "https", "http"}            \* the source types the library knows; "http" names the archive type too
    /\ (r.type = "git" => r.scheme \in {"https", "ssh"})
    /\ (r.type \in {"https", "http"} => r.scheme = "https")   \* the transport is never plain http
    /\ ~r.user
    /\ (r.type = "git" => r.qkeys \subseteq {"ref"} /\ "ref" \notin r.qmultikeys)
    /\ (r.type \in {"https", "http"} => /\ "checksum" \notin r.qkeys
                            /\ ("archive" \in r.qkeys => ("archive" \notin r.qmultikeys /\ r.archive = "tgz"))
                            /\ ("archive" \notin r.qkeys => r.archpath))
    /\ \A i \in DOMAIN r.sub : r.sub[i] \notin {"", ".", ".."}

\* the documented grammar: which field combinations are valid addresses
Redundant(ty, sc) == ty.tag # "none" /\ ty.tag = sc.tag
InGrammar(ty, sc, us, ho, pa, qu, fr, su) ==
  /\ ~Redundant(ty, sc)
  /\ su.tag \in {"none", "ok", "raw", "esc"}
  /\ Policy(PredRec(ty, sc, us, ho, pa, qu, fr, su))

\* fields whose handling is net/url's business: no accept/reject expectation is
\* made for them (only "if accepted, the policy holds" and the C06 laws)
Exotic(ty, sc, us, ho, pa, qu, fr, su) ==
  ty.tag = "http" \/ fr.tag # "none" \/ pa.tag \in {"esc-git", "raw-arch", "empty"} \/ su.tag \in {"raw", "esc"} \/ qu.v = "?" \/ qu.v = "?ref="

\* C06 known-finding shapes (DESIGN 8, C06): predicates over the abstract input
KF06(ty, sc, us, ho, pa, qu, fr, su) ==
  IF su.tag # "none" /\ (pa.tag \in {"esc-git", "raw-arch"} \/ su.tag \in {"raw", "esc"}) THEN "KF-C06-subpath-with-escaped-text"
  ELSE IF su.tag # "none" /\ fr.tag = "frag" THEN "KF-C06-fragment-swallowed-by-subpath"
  ELSE IF pa.tag = "raw-arch" THEN "KF-C06-raw-character-in-url-path"
  ELSE ""

SyntaxCase(ty, sc, us, ho, pa, qu, fr, su) ==
  LET ing == InGrammar(ty, sc, us, ho, pa, qu, fr, su)
      ex == Exotic(ty, sc, us, ho, pa, qu, fr, su) IN
  [fam |-> "addr", op |-> "parse", route |-> "source", s |-> Spell(ty, sc, us, ho, pa, qu, fr, su),
   expect |-> IF ex THEN "any" ELSE IF ing THEN "accept" ELSE "reject",
   rec |-> PredRec(ty, sc, us, ho, pa, qu, fr, su), policy |-> Policy(PredRec(ty, sc, us, ho, pa, qu, fr, su)),
   kf06 |-> KF06(ty, sc, us, ho, pa, qu, fr, su),
   parts |-> [type |-> ty.tag, url |-> sc.v \o "://" \o us.v \o ho.v \o pa.v \o qu.v \o fr.v, sub |-> JoinS(su.v, "/")]]

\* shorthands and registry addresses: fixed lists with expectations
Fixed ==
  { [s |-> "github.com/hashicorp/go-slug", e |-> "accept"], [s |-> "github.com/hashicorp/go-slug.git", e |-> "accept"],
    [s |-> "github.com/hashicorp/go-slug/sub/dir", e |-> "accept"], [s |-> "github.com/hashicorp/go-slug//sub", e |-> "any"],
    [s |-> "github.com/hashicorp", e |-> "reject"], [s |-> "gitlab.com/hashicorp/go-slug", e |-> "accept"],
    [s |-> "gitlab.com/hashicorp/go-slug/sub", e |-> "accept"], [s |-> "gitlab.com/x", e |-> "reject"],
    [s |-> "github.com/hashicorp/go-slug?ref=main", e |-> "any"], [s |-> "GitHub.com/hashicorp/go-slug", e |-> "any"],
    [s |-> "hashicorp/subnets/cidr", e |-> "accept"], [s |-> "hashicorp/subnets/cidr//sub/dir", e |-> "accept"],
    [s |-> "example.com/ns/name/sys", e |-> "accept"], [s |-> "example.com/ns/name/sys//sub", e |-> "accept"],
    [s |-> "EXAMPLE.com/ns/name/sys", e |-> "any"], [s |-> "hashicorp/subnets/cidr//sub/../x", e |-> "reject"],
    [s |-> "hashicorp/subnets/cidr//.", e |-> "reject"], [s |-> "a/b", e |-> "reject"], [s |-> "", e |-> "reject"], [s |-> " ./a", e |-> "reject"],
    [s |-> "./a ", e |-> "reject"], [s |-> "./a:b", e |-> "reject"], [s |-> "./a\\b", e |-> "reject"],
    [s |-> "example.com/foo/bar?next=https://example.net/", e |-> "any"], [s |-> "hashicorp/consul/aws?src=git://x", e |-> "any"],
    [s |-> "a?://", e |-> "any"], [s |-> "?", e |-> "any"], [s |-> "//", e |-> "any"], [s |-> "::", e |-> "any"], [s |-> "git::", e |-> "any"],
    [s |-> "git::https://", e |-> "any"], [s |-> "https://example.com/x.tgz//", e |-> "any"], [s |-> "https://example.com//x.tgz", e |-> "any"],
    [s |-> "@", e |-> "any"], [s |-> "a@b", e |-> "any"], [s |-> "github.com/", e |-> "any"], [s |-> "github.com//", e |-> "any"],
    [s |-> "https://example.com/x.tgz?%zz", e |-> "any"], [s |-> "https://[::1/x.tgz", e |-> "any"], [s |-> "https://example.com/x.tgz#", e |-> "any"],
    \* hosts outside ASCII: the replayer spells "unihost" with non-ASCII letters (TLA+ strings are ASCII)
    [s |-> "git::https://unihost.example.com/x.git", e |-> "any"], [s |-> "https://unihost.example.com/x.tgz//sub", e |-> "any"],
    [s |-> "unihost.example.com/ns/name/sys", e |-> "any"], [s |-> "unihost.example.com/ns/name/sys//sub", e |-> "any"],
    [s |-> "EXAMPLE.com/ns/name/sys", e |-> "any"], [s |-> "git::ssh://git@unihost.example.com/x.git?ref=v1", e |-> "any"],
    [s |-> "../", e |-> "any"], [s |-> ".//", e |-> "any"], [s |-> "./.", e |-> "reject"], [s |-> "hashicorp/subnets/cidr//", e |-> "any"] }
FixedFinal ==
  { [s |-> "example.com/ns/name/sys@1.2.3", e |-> "accept"], [s |-> "example.com/ns/name/sys@1.2.3//sub", e |-> "accept"],
    [s |-> "hashicorp/subnets/cidr@1.0.0-beta.1", e |-> "accept"], [s |-> "example.com/ns/name/sys@1.x", e |-> "reject"],
    [s |-> "example.com/ns/name/sys@", e |-> "reject"], [s |-> "example.com/ns/name/sys@1.2.3//..", e |-> "reject"],
    [s |-> "unihost.example.com/ns/name/sys@1.2.3", e |-> "any"], [s |-> "EXAMPLE.com/ns/name/sys@1.2.3//sub", e |-> "any"],
    [s |-> "git::https://example.com/r.git//a@1.2.3/b", e |-> "any"], [s |-> "./a@1.0.0", e |-> "any"] }
FixedCase(x, route) == [fam |-> "addr", op |-> "parse", route |-> route, s |-> x.s, expect |-> x.e, rec |-> [kind |-> "unpredicted"], policy |-> TRUE, kf06 |-> ""]

SyntaxCases ==
  { SyntaxCase(ty, sc, us, ho, pa, qu, fr, su) : ty \in Types, sc \in Schemes, us \in Users, ho \in Hosts, pa \in UPaths, qu \in Queries, fr \in Frags, su \in SubPs }
SyntaxCasesQuick ==
  { SyntaxCase(ty, sc, us, ho, pa, qu, fr, su) : ty \in Types, sc \in Schemes, us \in { F("", "none"), F("u:p@", "user") }, ho \in { F("EXAMPLE.com", "case") },
      pa \in UPaths \ { F("/o/x.git", "git"), F("/x.TGZ", "zip") }, qu \in Queries \ { F("?", "none"), F("?ref=", "ref") }, fr \in Frags,
      su \in { F(<<>>, "none"), F(<<"sub","dir">>, "ok"), F(<<"..">>, "bad"), F(<<"sub","","x">>, "bad"), F(<<"a b">>, "raw") } }

-----------------------------------------------------------------------------
\* Emission is partitioned over initial states so that TLC's workers share it.
VARIABLES phase, part
Kinds == {"local", "remote", "registry", "final"}
TypeSeq == << F("", "none"), F("git::", "git"), F("GIT::", "git"), F("https::", "https"), F("hg::", "hg"), F("http::", "http") >>
SchemeSeq == << F("https", "https"), F("ssh", "ssh"), F("HTTPS", "https"), F("http", "http"), F("git", "git") >>
AlgParts == << <<"resolve", "local">>, <<"resolve", "remote">>, <<"resolve", "registry">>, <<"resolve", "final">>,
               <<"compose", "local">>, <<"compose", "remote">>, <<"compose", "registry">>, <<"compose", "final">>, <<"misc", "">> >>
SynParts == [ i \in 1..(Len(TypeSeq) * Len(SchemeSeq) + 1) |->
               IF i > Len(TypeSeq) * Len(SchemeSeq) THEN <<"fixed", "">>
               ELSE << TypeSeq[((i - 1) \div Len(SchemeSeq)) + 1].v, SchemeSeq[((i - 1) % Len(SchemeSeq)) + 1].v >> ]
PartSeq == IF Part = "algebra" THEN AlgParts ELSE IF Part = "none" THEN << <<"none", "">> >> ELSE SynParts
Parts == { PartSeq[i] : i \in { j \in DOMAIN PartSeq : j % SliceN = SliceI } }
Init == phase = 0 /\ part \in Parts
EmitAll(S) == \A c \in S : PrintT("@@" \o ToJson(c))
CasesOf(pt) ==
  IF Part = "none" THEN {}
  ELSE IF Part = "algebra" THEN
     CASE pt[1] = "resolve" -> UNION { ResolveCases(b, r) : b \in { x \in Bases : x.kind = pt[2] }, r \in Rels }
       [] pt[1] = "compose" -> { c \in ComposeCases : c.kind = pt[2] }
       [] OTHER -> { AbsCase(q[1], q[2]) : q \in { y \in Bases \X { x \in Bases : x.kind # "local" /\ Len(x.sub) <= 1 } :
                                     ("final" \in {y[1].kind, y[2].kind}) => "registry" \notin {y[1].kind, y[2].kind} } }
                   \cup { JoinCase(reg, rs, real, ls) : reg \in RegPkgs, rs \in Stacks(2), real \in RemotePkgs, ls \in Stacks(2) }
                   \cup { ParseLocalCase(t, tr) : t \in RawRel, tr \in BOOLEAN }
  ELSE IF pt[1] = "fixed" THEN { FixedCase(x, "source") : x \in Fixed } \cup { FixedCase(x, "final") : x \in FixedFinal }
     \* every kind of userinfo (name only, password only, present but empty) under every type and scheme, other fields plain
     \cup { SyntaxCase(ty, sc, us, F("example.com", "plain"), pa, F("", "none"), F("", "none"), su) :
               ty \in Types, sc \in Schemes, us \in Users, pa \in { F("/x.git", "git"), F("/x.tgz", "arch") }, su \in { F(<<>>, "none"), F(<<"sub">>, "ok") } }
  ELSE IF Part = "syntaxq" THEN
     { SyntaxCase(ty, sc, us, ho, pa, qu, fr, su) : ty \in { x \in Types : x.v = pt[1] }, sc \in { x \in Schemes : x.v = pt[2] },
        us \in { F("", "none"), F("u:p@", "user") }, ho \in { F("EXAMPLE.com", "case") },
        pa \in UPaths \ { F("/o/x.git", "git"), F("/x.TGZ", "zip") }, qu \in Queries \ { F("?", "none"), F("?ref=", "ref") }, fr \in Frags,
        su \in { F(<<>>, "none"), F(<<"sub","dir">>, "ok"), F(<<"..">>, "bad"), F(<<"sub","","x">>, "bad"), F(<<"a b">>, "raw") } }
  ELSE { SyntaxCase(ty, sc, us, ho, pa, qu, fr, su) : ty \in { x \in Types : x.v = pt[1] }, sc \in { x \in Schemes : x.v = pt[2] },
        us \in Users, ho \in Hosts, pa \in UPaths, qu \in Queries, fr \in Frags, su \in SubPs }
Next == phase = 0 /\ EmitAll(CasesOf(part)) /\ phase' = 1 /\ part' = part
Spec == Init /\ [][Next]_<<phase, part>>

\* design-level checks
ComposeLaw == Part = "algebra" => \A c \in ComposeCases : c.lawholds
=============================================================================
