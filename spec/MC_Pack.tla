------------------------------ MODULE MC_Pack ------------------------------
(***************************************************************************)
(* Bounded universes, the one-call state machine and the verdict record for *)
(* the Pack family (C02 C03 C05 C16 C19 C20).                               *)
(*                                                                         *)
(* Arena:  /A/src   the tree            /A/srcx  sibling sharing the prefix *)
(*         /A/ext   external directory  /A/ext2  another one                *)
(*         /A/ef    external file       /A/fifo  a fifo                     *)
(*         /A/la <-> /A/lb  a link cycle         /A/out   empty (round trip)*)
(*         /A/cw    an unrelated working directory, /A/cw/rl -> ../src      *)
(***************************************************************************)
EXTENDS RoundTrip

CONSTANTS Universe,      \* which tree universe Init draws from: "safety" | "ignore" | "spell"
          RuleMode       \* "none" | "single" | "pair"   (user rule lists for the ignore universe)

Src == <<"A","src">>
MCOut == <<"A","out">>
D7 == DirNode(755, 1)

MCNameOrder == <<"", " ", "-n", ".", "..", "..n", ".git", ".terraform", ".terraformignore", "A", "a", "a+b", "aab", "ab", "b", "big", "c2", "cw", "e", "e3", "ef", "ext", "ext2",
                 "f", "fifo", "g", "k", "l", "la", "la2", "lb", "lc", "ld", "m", "modules", "out", "p", "q", "ra", "rl", "rl2", "s", "s.n", "src", "srcx", "t", "x", "y", "z">>
MCNameChars == [n \in { MCNameOrder[i] : i \in DOMAIN MCNameOrder } |->
   CASE n = ".git" -> DotGit [] n = ".terraform" -> DotTerraform [] n = "modules" -> Modules
     [] n = ".terraformignore" -> <<".","t","e","r","r","a","f","o","r","m","i","g","n","o","r","e">>
     [] n = "ab" -> <<"a","b">> [] n = "a+b" -> <<"a","+","b">> [] n = "aab" -> <<"a","a","b">> [] n = "ef" -> <<"e","f">> [] n = "ext" -> <<"e","x","t">> [] n = "ext2" -> <<"e","x","t","2">>
     [] n = "fifo" -> <<"f","i","f","o">> [] n = "la" -> <<"l","a">> [] n = "lb" -> <<"l","b">> [] n = "out" -> <<"o","u","t">>
     [] n = "src" -> <<"s","r","c">> [] n = "srcx" -> <<"s","r","c","x">> [] n = "cw" -> <<"c","w">> [] n = "rl" -> <<"r","l">>
     [] n = "..n" -> <<".",".","n">> [] n = "s.n" -> <<"s",".","n">> [] n = "rl2" -> <<"r","l","2">> [] n = "ra" -> <<"r","a">> [] n = ".." -> <<".",".">>
     [] n = "-n" -> <<"-","n">> [] n = "big" -> <<"b","i","g">> [] n = "la2" -> <<"l","a","2">> [] n = "e3" -> <<"e","3">> [] n = "c2" -> <<"c","2">> [] n = "lc" -> <<"l","c">> [] n = "ld" -> <<"l","d">>
     [] OTHER -> <<n>>]

ArenaBase ==
  (Root :> D7) @@ (<<"A">> :> D7) @@ (Src :> D7) @@ (MCOut :> D7)
  @@ (<<"A","srcx">> :> D7) @@ (<<"A","srcx","f">> :> FileNode(644, 1, 2))
  @@ (<<"A","ext">> :> D7) @@ (<<"A","ext","x">> :> FileNode(640, 3, 3)) @@ (<<"A","ext","s">> :> D7) @@ (<<"A","ext","s","y">> :> FileNode(644, 1, 6))
  @@ (<<"A","ext2">> :> D7) @@ (<<"A","ext2","y">> :> FileNode(644, 1, 4))
  @@ (<<"A","ef">> :> FileNode(600, 4, 5))
  @@ (<<"A","cw","ef">> :> FileNode(644, 1, 7))     \* what ../cw/rl/../ef names lexically (physically it is A/ef: rl -> ../src)
  @@ (<<"A","cw","la2">> :> LinkNode(<<"..">>))      \* A/cw/la2/src names the source directory through a symlinked ancestor
  @@ (<<"ef">> :> FileNode(644, 1, 1))               \* what ../../ef names physically from A/src
  @@ (<<"A","fifo">> :> FifoNode(644, 1))
  @@ (<<"A","la">> :> LinkNode(<<"lb">>)) @@ (<<"A","lb">> :> LinkNode(<<"la">>))
  @@ (<<"A","lc">> :> LinkNode(<<"","A","ld">>)) @@ (<<"A","ld">> :> LinkNode(<<"","A","lc">>))      \* a cycle with absolute targets
  @@ (<<"A","cw">> :> D7) @@ (<<"A","cw","rl">> :> LinkNode(<<"..","src">>)) @@ (<<"A","cw","rl2">> :> LinkNode(<<"rl">>))
  @@ (<<"A","cw","ra">> :> LinkNode(<<"","A","src">>))
  @@ (<<"A","cw","t">> :> D7) @@ (<<"A","cw","t","e">> :> LinkNode(<<"..","..","ef">>))      \* another root with an external link

Opt(x) == IF x = <<>> THEN <<>> ELSE x
LinkSlot(p, tg) == IF tg = <<"-">> THEN <<>> ELSE (p :> LinkNode(tg))

\* ---- safety universe: link shapes x special files x odd modes ----
TL == { <<"..","cw","rl","..","ef">>, <<"..">>, <<"..","cw","ext","zz">>, <<"..","ext">>, <<"..","ext","s">>, <<"..","ext","x">>, <<"..","srcx">>, <<"..","srcx","f">>, <<"s">>, <<"f">>, <<"nowhere">>,
        <<"..","fifo">>, <<"..","la">>, <<"","A","src","f">>, <<"","A","ef">>, <<"..","..","A","ext">>, <<"s","..","..","ef">>, <<"..","ef">>, <<"..","ext","k">> }
TK == { <<"s">>, <<"..","ext2">>, <<".">>, <<"..","src","f">>, <<"x">>, <<"..","ef">>, <<"","A","ext","x">> }
TK2 == { <<"..","..","src","f">>, <<"y">>, <<"..","..","ext2">> }      \* a link at ext/s/k: one level deeper than where it lands in the archive
TM == { <<"..","f">>, <<"..","..">>, <<"..","..","src","f">>, <<"..","..","ext">>, <<"..","..","srcx","f">>, <<"..">>, <<"g">> }
TLq == { <<"..","cw","rl","..","ef">>, <<"..">>, <<"..","cw","ext","zz">>, <<"..","ext">>, <<"..","ext","s">>, <<"..","ext","x">>, <<"..","srcx","f">>, <<"s">>, <<"nowhere">>, <<"..","fifo">>, <<"..","la">>, <<"","A","src","f">>, <<"","A","ef">>, <<"..","ext","k">> }
\* l -> ../ext/k -> s: the second hop of a chain is relative to the directory of the second link (ext/s, not src/s)
TKq == { <<"s">>, <<"..","ext2">>, <<".">>, <<"x">>, <<"","A","ext","x">> }
TMq == { <<"..","f">>, <<"..","..">>, <<"..","..","src","f">>, <<"..","..","ext">>, <<"..">> }

TreeCore(tf, md, zm) ==
  (<<"A","src","f">> :> FileNode(644, tf, 1)) @@ (<<"A","src","s">> :> DirNode(md, 3))
  @@ (<<"A","src","s","g">> :> FileNode(600, 2, 2)) @@ (<<"A","src","e">> :> DirNode(md, 4))
  @@ (<<"A","src","z">> :> FileNode(zm, 2, 0)) @@ (<<"A","src","p">> :> FifoNode(644, 2))
  @@ (<<"A","src","s.n">> :> FileNode(644, 2, 4))
  @@ (<<"A","src","big">> :> FileNode(644, 2, 9000))          \* 36 000 bytes: larger than any buffer a copy loop might special-case

SafetyTrees(tl, tk, tm) ==
  { LinkSlot(<<"A","src","l">>, <<"..","ext","s">>) @@ LinkSlot(<<"A","ext","s","k">>, k2) @@ TreeCore(2, 755, 644) @@ ArenaBase : k2 \in TK2 }
  \cup
  { LinkSlot(<<"A","src","l">>, l) @@ LinkSlot(<<"A","ext","k">>, k) @@ LinkSlot(<<"A","src","s","m">>, m)
    @@ TreeCore(tf, md, zm) @@ ArenaBase
    : l \in tl \cup {<<"-">>}, k \in tk \cup {<<"-">>}, m \in tm \cup {<<"-">>},
      tf \in {2}, md \in {755}, zm \in {644} }
  \cup { TreeCore(tf, md, zm) @@ ArenaBase : tf \in {1024, 1025, 1026, 2}, md \in {755, 500, 700}, zm \in {0, 444, 777} }
  \* the same relative target text at two depths: b/q -> ../f stays inside and is walked first, l -> ../f leaves the tree
  \cup { (<<"A","src","b">> :> D7) @@ LinkSlot(<<"A","src","b","q">>, <<"..","f">>) @@ LinkSlot(<<"A","src","l">>, <<"..","f">>) @@ TreeCore(2, 755, 644) @@ ArenaBase }

\* ---- round-trip universe (C02): relative in-tree links incl. dangling and chained, modes, times ----
\* names beginning with two dots or a dash; a directory and a file with fractional mtimes (.5 rounds up, .6 up, .4 down)
DotDotNames == (<<"A","src","..n">> :> FileNode(644, 1024, 3)) @@ (<<"A","src","s","..n">> :> DirNode(755, 1035))
               @@ (<<"A","src","-n">> :> FileNode(640, 1026, 3))
               @@ (<<"A","src"," ">> :> FileNode(644, 2, 2))                 \* a name that is nothing but a blank
               \* what the built-in rules exclude and re-include: .terraform goes, .terraform/modules stays - as a directory too
               @@ (<<"A","src",".terraform">> :> DirNode(750, 3)) @@ (<<"A","src",".terraform","x">> :> FileNode(644, 2, 5))
               @@ (<<"A","src",".terraform","modules">> :> DirNode(700, 1035)) @@ (<<"A","src",".terraform","modules","f">> :> FileNode(600, 2, 6))
RTTrees ==
  { LinkSlot(<<"A","src","l">>, l) @@ LinkSlot(<<"A","src","k">>, k) @@ LinkSlot(<<"A","src","s","m">>, m) @@ DotDotNames @@ TreeCore(tf, md, zm) @@ ArenaBase
    : l \in { <<"s">>, <<"f">>, <<".","f">>, <<"s","..","f">>, <<"nowhere">>, <<"s","g">>, <<"k">>, <<"-">> }, k \in { <<"l">>, <<".">>, <<"-">> },
      m \in { <<"..","f">>, <<"g">>, <<"..">>, <<"-">> }, tf \in {2, 1025}, md \in {755, 500}, zm \in {0, 644} }

\* ---- ignore universe: a saturated tree, rule lists from a pattern universe ----
ID == { "a", "ab" }
IF_ == { "b" }
Sat == [ p \in ( { <<d>> : d \in ID } \cup { <<d1, d2>> : d1 \in ID, d2 \in ID } ) |-> D7 ]
       @@ [ p \in ( { <<f>> : f \in IF_ } \cup { <<d, f>> : d \in ID, f \in IF_ } \cup { <<d1, d2, f>> : d1 \in ID, d2 \in ID, f \in IF_ } ) |-> FileNode(644, 2, 1) ]
       @@ (<<".git">> :> D7) @@ (<<".git","b">> :> FileNode(644, 2, 1))
       @@ (<<".terraform">> :> D7) @@ (<<".terraform","b">> :> FileNode(644, 2, 1))
       @@ (<<".terraform","modules">> :> D7) @@ (<<".terraform","modules","b">> :> FileNode(644, 2, 1))
       @@ (<<"a",".git">> :> D7) @@ (<<"a",".git","b">> :> FileNode(644, 2, 1))
       @@ (<<".terraform","modules",".git">> :> D7) @@ (<<".terraform","modules",".git","b">> :> FileNode(644, 2, 1))
       @@ (<<"l">> :> LinkNode(<<"..","ext">>))          \* dereferenced external directory: ext/x, ext/s/y
       @@ (<<"a+b">> :> FileNode(644, 2, 1)) @@ (<<"aab">> :> FileNode(644, 2, 1))    \* a name with a regexp operator, and what the operator would match
IgnoreTree == [ p \in { Src \o r : r \in DOMAIN Sat } |-> Sat[SubSeq(p, 3, Len(p))] ]
              @@ (Src \o <<".terraformignore">> :> FileNode(644, 2, RuleFileC)) @@ ArenaBase

SegPats == { <<"a">>, <<"b">>, <<"a","*">>, <<"*">>, <<"?">>, <<"a","?">>, <<"a","+","b">>, <<"x">>, <<"s">>, <<"l">> }
SegLists == { <<s>> : s \in SegPats } \cup { <<s, t>> : s \in SegPats \cup {DSeg}, t \in SegPats \ {<<"x">>, <<"s">>} }
            \cup { <<<<"a">>, DSeg, t>> : t \in {<<"b">>, <<"*">>} } \cup { <<<<"l">>, <<"x">>>>, <<<<"l">>, <<"s">>>>, <<DSeg, <<"s">>, <<"*">>>> }
RulesU == { SR(n, a, d, sg) : n \in BOOLEAN, a \in BOOLEAN, d \in BOOLEAN, sg \in SegLists }
SegListsS == { <<<<"a">>>>, <<<<"b">>>>, <<<<"a","*">>>>, <<<<"*">>>>, <<<<"a">>, <<"b">>>>, <<<<"a">>, <<"*">>>>, <<DSeg, <<"b">>>>,
               <<<<"a">>, DSeg, <<"b">>>>, <<<<"l">>, <<"s">>>>, <<<<"l">>, <<"x">>>>, <<<<"a","b">>>>, <<<<"?">>, <<"b">>>> }
RulesS == { SR(n, a, d, sg) : n \in BOOLEAN, a \in BOOLEAN, d \in BOOLEAN, sg \in SegListsS }
RuleLists ==
  CASE RuleMode = "none" -> { <<>> }
    [] RuleMode = "single" -> { <<r>> : r \in { x \in RulesU : ~x.neg } }
    [] RuleMode = "pair" -> { <<r, q>> : r \in { x \in RulesS : ~x.neg }, q \in { x \in RulesS : x.neg } }
    [] RuleMode = "pairq" -> { <<r, q>> : r \in { x \in RulesS : ~x.neg /\ x.dir }, q \in { x \in RulesS : x.neg /\ ~x.anch } }
    \* four rules with two negations: a directory rule sits right before the second negation, which re-includes
    \* something below that directory (the negationsAfter marks of rules between two negations)
    [] RuleMode = "quad" -> { << SR(FALSE, a1, TRUE, <<d1>>), SR(TRUE, a1, FALSE, <<d1, <<"b">>>>), SR(FALSE, a2, TRUE, <<d2>>), SR(TRUE, a2, FALSE, <<d2, k>>) >>
                                : d1 \in { <<"a">>, <<"a","b">> }, d2 \in { <<"a">>, <<"a","b">> }, k \in { <<"b">>, <<"a">>, <<"*">> }, a1 \in BOOLEAN, a2 \in BOOLEAN }
                              \cup { << SR(FALSE, FALSE, FALSE, x), SR(TRUE, FALSE, FALSE, y), SR(FALSE, FALSE, TRUE, <<d2>>), SR(TRUE, FALSE, FALSE, <<d2, k>>) >>
                                : x \in { <<<<"b">>>>, <<<<"*">>>> }, y \in { <<<<"a">>, <<"b">>>>, <<<<"a","b">>>> }, d2 \in { <<"a">>, <<"a","b">> }, k \in { <<"b">>, <<"a">> } }
    [] OTHER -> { <<>> }

-----------------------------------------------------------------------------
VARIABLES pfs, rules, call, res
pvars == <<pfs, rules, call, res>>

\* ---- spelling universe (C16): one tree, many ways to name it ----
SpellTree == TreeCore(2, 755, 644) @@ (<<"A","src","l">> :> LinkNode(<<"s","g">>))
             @@ (<<"A","src","q">> :> LinkNode(<<"..","ext","x">>))
             @@ (<<"A","src","k">> :> LinkNode(<<"","A","src","f">>))          \* absolute, in-tree          \* out of tree, permitted by the relative allow-list prefix ../ext
             \* out of the tree through a relative target that is itself a relative link (two hops): ../ext/k -> ../ext2
             @@ (<<"A","src","c2">> :> LinkNode(<<"..","ext","k">>)) @@ (<<"A","ext","k">> :> LinkNode(<<"..","ext2">>))
             @@ (Src \o <<".terraformignore">> :> FileNode(644, 2, RuleFileC)) @@ ArenaBase
\* the same tree with a link that climbs above the root (only explored with dereferencing, canonically and through
\* the symlinked ancestor A/cw/la2)
SpellTreeA == (<<"A","src","e3">> :> LinkNode(<<"..","..","ef">>)) @@ SpellTree
AncSpellings == { [cwd |-> <<"A">>, sp |-> <<"", "A", "cw", "la2", "src">>], [cwd |-> <<"A","cw">>, sp |-> <<"la2", "src">>] }
SpellRules == << SR(FALSE, FALSE, TRUE, <<<<"s">>>>), SR(TRUE, FALSE, FALSE, <<<<"s">>, <<"g">>>>) >>
Canon == [cwd |-> <<"A">>, sp |-> <<"", "A", "src">>]
Spellings ==
  { Canon,
    [cwd |-> <<"A">>, sp |-> <<"src">>], [cwd |-> <<"A">>, sp |-> <<"src", "">>], [cwd |-> <<"A">>, sp |-> <<".", "src">>],
    [cwd |-> <<"A">>, sp |-> <<"src", "..", "src">>], [cwd |-> <<"A">>, sp |-> <<"", "A", "", "src", "">>],
    [cwd |-> <<"A","cw">>, sp |-> <<"..", "src">>], [cwd |-> <<"A","src">>, sp |-> <<".">>], [cwd |-> <<"A","src","s">>, sp |-> <<"..">>],
    [cwd |-> <<"A","cw">>, sp |-> <<"", "A", "src">>],
    [cwd |-> <<"A">>, sp |-> <<"", "A", "cw", "ra">>], [cwd |-> <<"A","cw">>, sp |-> <<"ra">>],
    [cwd |-> <<"A","cw">>, sp |-> <<"rl">>], [cwd |-> <<"A">>, sp |-> <<"cw", "rl">>], [cwd |-> <<"A","cw">>, sp |-> <<"rl2">>],
    [cwd |-> <<"A">>, sp |-> <<"cw", "rl", "">>], [cwd |-> <<"A","cw">>, sp |-> <<"ra", "">>] }
Pres == { <<>>, << [op |-> "parse", lines |-> <<"!x", "y">>, ign |-> FALSE] >>, << [op |-> "pack", lines |-> <<>>, ign |-> TRUE] >>,
          << [op |-> "pack", lines |-> <<>>, ign |-> FALSE] >>,
          << [op |-> "parse", lines |-> <<"!x">>, ign |-> FALSE], [op |-> "pack", lines |-> <<>>, ign |-> TRUE] >>,
          << [op |-> "packsame", lines |-> <<>>, ign |-> FALSE] >> }     \* the same Packer value first packs another root (A/cw/t)

\* the source argument itself is a link in a cycle
CycSpellings == { [cwd |-> <<"A">>, sp |-> <<"la">>], [cwd |-> <<"A">>, sp |-> <<"", "A", "lc">>], [cwd |-> <<"A","cw">>, sp |-> <<"", "A", "lc">>],
                  [cwd |-> <<"A">>, sp |-> <<"lc", "">>] }
SpellUs == {"spell", "rootcyc"}
LegacySpellings == { Canon, [cwd |-> <<"A">>, sp |-> <<"src">>], [cwd |-> <<"A","src">>, sp |-> <<".">>] }
LegacyPres == { <<>>, << [op |-> "parse", lines |-> <<"!x", "y">>, ign |-> FALSE] >> }

\* Known-finding class for C16: the spelling's last component is a symlink and the
\* case is not the one shape Pack handles (a single link with an absolute target to
\* the directory, spelled without trailing segments)
StripTrail(sp) == IF sp # <<>> /\ Last(sp) \in {"", "."} /\ Len(sp) > 1 THEN Parent(sp) ELSE sp
KF16Class(f, cwd, sp, st, out, canon) ==
  LET r == Res(f, IF IsAbsT(sp) THEN Root ELSE cwd, StripTrail(sp), FUEL, FALSE) IN
  IF r.st = "ok" /\ f[r.p].k = "l"
     /\ ~( IsAbsT(f[r.p].tgt) /\ StripTrail(sp) = sp
           /\ LET t == ResAbs(f, JoinClean(Root, f[r.p].tgt), FALSE) IN t.st = "ok" /\ f[t.p].k = "d" )
  THEN "KF-C16-root-given-as-symlink"
  \* a symlinked ancestor in the spelling and, in the tree, a link whose relative target climbs above the root: link
  \* targets are joined lexically onto the spelled path but opened physically
  ELSE IF (\E k \in 1..(Len(StripTrail(sp)) - 1) :
              LET q == Res(f, IF IsAbsT(sp) THEN Root ELSE cwd, SubSeq(StripTrail(sp), 1, k), FUEL, FALSE) IN q.st = "ok" /\ f[q.p].k = "l")
          /\ \E p \in DOMAIN f : StrictlyUnder(p, Src) /\ f[p].k = "l" /\ ~IsAbsT(f[p].tgt)
                                   /\ ~Under(JoinClean(<<"#root">> \o SubSeq(Parent(p), Len(Src) + 1, Len(p) - 1), f[p].tgt), <<"#root">>)
  THEN "KF-C16-symlinked-ancestor-and-climbing-link" ELSE ""

\* ---- degenerate rule lines (C19): every line of length <= 2 over a hostile character set ----
LineChars == { " ", "!", "#", "/", "*", "\\", "a", "[", "?", "\t" }
RawLines == { <<c>> : c \in LineChars } \cup { <<c, d>> : c \in LineChars, d \in LineChars }
RawFiles == { <<l>> : l \in RawLines } \cup { <<l, <<"b">>>> : l \in { <<"!">>, <<" ">>, <<"[">>, <<"a", "[">>, <<"\\">>, <<"!", "[">> } }

Trees == CASE Universe = "spell" -> { SpellTree, SpellTreeA } [] Universe = "rootcyc" -> { SpellTree } [] Universe = "safety" -> SafetyTrees(TL, TK, TM)
           [] Universe = "safetyq" -> SafetyTrees(TLq, TKq, TMq)
           [] Universe = "rt" -> RTTrees
           [] Universe = "judge" -> { ArenaBase }
           [] Universe = "lines" -> { IgnoreTree }
           [] OTHER -> { IgnoreTree }

OptSets == CASE Universe = "lines" -> { [ign |-> TRUE, deref |-> FALSE, allow |-> {}, allowrel |-> {}] } []
               Universe \in {"safety", "safetyq", "rt"} ->
                  { [ign |-> i, deref |-> d, allow |-> al, allowrel |-> {}] : i \in BOOLEAN, d \in BOOLEAN, al \in { {}, {<<"A","ext">>} } }
                  \cup { [ign |-> FALSE, deref |-> d, allow |-> {}, allowrel |-> { <<"..","ext">> }] : d \in BOOLEAN }
             [] OTHER -> { [ign |-> i, deref |-> d, allow |-> {}, allowrel |-> {}] : i \in BOOLEAN, d \in BOOLEAN }

Init == /\ pfs \in Trees
        /\ rules \in (IF Universe = "lines" THEN RawFiles ELSE IF Universe \in {"safety", "safetyq", "rt", "judge"} THEN { <<>> } ELSE IF Universe \in SpellUs THEN { SpellRules } ELSE RuleLists)
        /\ call = FALSE /\ res = "none"

Lines(rl) == [i \in DOMAIN rl |-> SpellRule(rl[i])]
RECURSIVE Cat(_)
Cat(s) == IF s = <<>> THEN "" ELSE Head(s) \o Cat(Tail(s))

ExclL0(opts, rl, ap, isDir) == opts.ign /\ SpecExcluded(rl, [i \in DOMAIN ap |-> MCNameChars[ap[i]]], isDir)

\* ---- L0: the tree the source denotes, by archive path (reference interpretation) ----
\* set of [ap, k, n]; phys: a directory; depth bounds nested dereferencing
RECURSIVE Logical(_,_,_,_,_,_)
Logical(f, opts, rl, phys, prefix, depth) ==
  UNION { LET child == Append(phys, n)  ap == Append(prefix, n)  nd == f[child] IN
          IF nd.k = "d" THEN { [ap |-> ap, k |-> "d", n |-> nd] } \cup Logical(f, opts, rl, child, ap, depth)
          ELSE IF nd.k = "f" THEN { [ap |-> ap, k |-> "f", n |-> nd] }
          ELSE IF nd.k = "p" THEN {}
          ELSE IF ValidLinkP(Src, opts.allow, child, nd.tgt) THEN { [ap |-> ap, k |-> "l", n |-> nd] }
          ELSE IF ~opts.deref THEN { [ap |-> ap, k |-> "bad", n |-> nd] }
          ELSE LET r == ResAbs(f, child, TRUE) IN
               IF r.st # "ok" THEN { [ap |-> ap, k |-> "bad", n |-> nd] }
               ELSE IF f[r.p].k = "f" THEN { [ap |-> ap, k |-> "f", n |-> f[r.p]] }
               ELSE IF f[r.p].k = "d" THEN (IF depth = 0 THEN { [ap |-> ap, k |-> "bad", n |-> nd] }
                                            ELSE IF ExclL0(opts, rl, ap, FALSE) THEN {}     \* the link is a file: excluded means gone
                                            ELSE Logical(f, opts, rl, r.p, ap, depth - 1))
               ELSE {}
        : n \in KidNames(f, phys) }


\* Known-finding class for C19: dereferencing is on and the arena holds a link
\* whose physical resolution never ends (ELOOP) or leads to a directory that
\* contains the link itself: the dereference recursion has no cycle detection.
KF19Class(f, opts, d19) ==
  IF d19 \subseteq {"diverge", "crash", "hang"} /\ d19 # {} /\ opts.deref
     /\ \E p \in DOMAIN f : f[p].k = "l" /\
           LET r == ResAbs(f, p, TRUE) IN
           r.st = "loop" \/ (r.st = "ok" /\ f[r.p].k = "d" /\ Under(p, r.p))
  THEN "KF-C19-dereference-cycle" ELSE ""

\* the allow-list in effect for a call on Src: relative entries are joined to the root of that call
EffOpts(o) == [o EXCEPT !.allow = o.allow \cup { JoinClean(Src, r) : r \in o.allowrel }]
Verdict(f, opts0, rl, st, out, meta, rt, l1) ==
  LET opts == EffOpts(opts0)
      logical == Logical(f, opts, rl, Src, <<>>, 2)
      wantFiles == { x.ap : x \in { y \in logical : y.k \in {"f", "l"} /\ ~ExclL0(opts, rl, y.ap, FALSE) } }
      haveFiles == { out[i].name : i \in { j \in DOMAIN out : out[j].k \in {"f", "l"} } }
      bad == { x \in logical : x.k = "bad" /\ ~ExclL0(opts, rl, x.ap, FALSE) }
      d03 == IF st = "ok" /\ bad = {} THEN { <<"leaked", CatS(p)>> : p \in haveFiles \ wantFiles } \cup { <<"lost", CatS(p)>> : p \in wantFiles \ haveFiles } ELSE {}
      d05 == (IF st = "ok" THEN C05Bad(f, Src, opts, out) ELSE {})
             \cup (IF st = "ok" /\ ~opts.deref /\ \E x \in bad : TRUE THEN {<<"out-of-tree-link-accepted", "">>} ELSE {})
             \cup (IF l1.st = "illegal" /\ st \notin {"illegal"} /\ out = l1.out /\ st # "ok" THEN {<<"rejection-not-illegal", "">>} ELSE {})
             \cup (IF st = "ok" /\ opts.allow = {} /\ rt.st = "illegal"
                      /\ (\A p \in DOMAIN f : (StrictlyUnder(p, Src) /\ f[p].k = "l") => ~IsAbsT(f[p].tgt))
                      /\ (\A i \in DOMAIN out : out[i].k = "l" => ~IsAbsT(out[i].tgt))     \* also no absolute link pulled in by dereferencing
                   THEN {<<"unpack-rejects-slug", "">>} ELSE {})
      d20 == IF st = "ok" THEN C20Bad(out, meta) ELSE {}
      S == SubTree(f, Src)
      excl == [r \in DOMAIN S |-> ExclL0(opts, rl, r, S[r].k = "d")]
      \* "relative symlinks that stay inside the tree": the tree is named by its own root only, so a
      \* target that climbs above the root and comes back by the root's name does not stay inside
      relOnly == \A r \in DOMAIN S : S[r].k = "l" => (~IsAbsT(S[r].tgt) /\ Under(JoinClean(<<"#root">> \o Parent(r), S[r].tgt), <<"#root">>))
      d02 == IF st = "ok" /\ relOnly /\ rt.st = "ok" THEN C02Diffs(S, rt.tree, excl)
             ELSE IF relOnly /\ (st # "ok" \/ rt.st # "ok") THEN {<<"round-trip-failed", st \o "/" \o rt.st>>} ELSE {}
      d19 == C19Bad(st)
      \* C12 (Pack half): a writer failing at any byte offset makes Pack return an error
      d12 == { "writer fault at offset " \o ToString(meta.wfsilent[i]) \o " not reported" : i \in DOMAIN meta.wfsilent }
  IN [ c03 |-> d03 = {}, c05 |-> d05 = {}, c20 |-> d20 = {}, c02 |-> d02 = {}, c19 |-> d19 = {}, c12 |-> d12 = {}, w12 |-> d12, kf12 |-> "",
       w03 |-> { d[1] \o ":" \o d[2] : d \in d03 }, w05 |-> { d[1] \o ":" \o d[2] : d \in d05 },
       w20 |-> d20, w02 |-> { d[1] \o ":" \o d[2] : d \in d02 }, w19 |-> d19,
       kf03 |-> "", kf05 |-> "", kf20 |-> "", kf02 |-> "", kf19 |-> KF19Class(f, opts, d19),
       relonly |-> relOnly ]

MetaOf(out) == [files |-> EntryNames(out), size |-> 0, bodybytes |-> 0, hdrsizes |-> 0, wfsilent |-> <<>>]

DoPack ==
  /\ ~call
  /\ \E opts \in OptSets :
       LET raw == Universe = "lines"
           r == PackRun(pfs, <<"A">>, <<"", "A", "src">>, opts, IF raw THEN rules ELSE Lines(rules))
           u == IF r.st = "ok" THEN UnpackOf(pfs, r.out) ELSE [st |-> "none", fs |-> pfs]
           rt == [st |-> u.st, tree |-> SubTree(u.fs, MCOut)]
           rec == [fam |-> "pack", tree |-> Snapshot(pfs), src |-> Src, cwd |-> <<"A">>, spelling |-> <<"", "A", "src">>,
                   opts |-> opts, rules |-> IF raw THEN <<>> ELSE rules,
                   lines |-> [i \in DOMAIN rules |-> Cat(IF raw THEN rules[i] ELSE SpellRule(rules[i]))],
                   st |-> r.st, out |-> r.out, rt |-> [st |-> u.st, fs |-> Snapshot(SubTreeAbs(u.fs, MCOut))],
                   v |-> IF raw THEN [c19 |-> C19Bad(r.st) = {}, w19 |-> C19Bad(r.st), kf19 |-> ""]
                         ELSE Verdict(pfs, opts, rules, r.st, r.out, MetaOf(r.out), rt, r)]
       IN /\ call' = TRUE /\ res' = r.st
          /\ PrintT("@@" \o ToJson(rec))
  /\ UNCHANGED <<pfs, rules>>

DoSpell ==
  /\ ~call /\ Universe \in SpellUs
  \* api: a Packer value with options, or the package-level Pack(src, w, dereference) (always applies the rule
  \* file, no allow-list), which is only explored overlapping with another package-level Pack call
  /\ \E s \in Spellings \cup CycSpellings \cup AncSpellings, pre \in Pres, conc \in BOOLEAN, ig \in BOOLEAN, api \in {"packer", "packer-deref", "legacy-deref", "legacy-plain"} :
       /\ (Universe = "spell" /\ api \in {"legacy-deref", "legacy-plain"} => (conc /\ ig /\ s \in LegacySpellings /\ pre \in LegacyPres))
       /\ (api = "packer-deref" => (Universe = "spell" /\ pre = <<>> /\ ~conc /\ ~ig))        \* dereferencing under every spelling
       /\ (pfs = SpellTreeA => (api = "packer-deref" /\ s \in AncSpellings \cup {Canon}))
       /\ (Universe = "rootcyc" => (s \in CycSpellings /\ pre = <<>> /\ ~conc /\ (api # "packer" => ig)))
       /\ LET opts == IF api = "packer" THEN [ign |-> ig, deref |-> FALSE, allow |-> {}, allowrel |-> { <<"..","ext">> }]
                   ELSE IF api = "packer-deref" THEN [ign |-> FALSE, deref |-> TRUE, allow |-> {}, allowrel |-> {}]
                      ELSE [ign |-> TRUE, deref |-> api = "legacy-deref", allow |-> {}, allowrel |-> {}]
              r == PackRun(pfs, s.cwd, s.sp, opts, Lines(rules))
              c == PackRun(pfs, Canon.cwd, Canon.sp, opts, Lines(rules))
              same == r.st = c.st /\ (c.st = "ok" => r.out = c.out)
              rec == [fam |-> "pack", tree |-> Snapshot(pfs), src |-> Src, cwd |-> s.cwd, spelling |-> s.sp,
                      opts |-> opts, rules |-> rules, lines |-> [i \in DOMAIN rules |-> Cat(SpellRule(rules[i]))],
                      pre |-> pre, conc |-> conc, c16 |-> TRUE, api |-> api,
                      st |-> r.st, out |-> r.out, canon |-> [st |-> c.st, out |-> c.out],
                      rt |-> [st |-> "skip", fs |-> {}],
                      v |-> [c16 |-> same,
                             w16 |-> (IF r.st # c.st THEN {"status:" \o r.st \o "/" \o c.st} ELSE {})
                                     \cup (IF c.st = "ok" /\ r.st = "ok" /\ r.out # c.out THEN {"entries-differ-from-canonical"} ELSE {}),
                             kf16 |-> IF same THEN "" ELSE KF16Class(pfs, s.cwd, s.sp, r.st, r.out, c),
                             c19 |-> C19Bad(r.st) = {}, w19 |-> C19Bad(r.st), kf19 |-> ""]]
          IN /\ call' = TRUE /\ res' = r.st
             /\ PrintT("@@" \o ToJson(rec))
  /\ UNCHANGED <<pfs, rules>>

Next == (Universe \notin SpellUs \cup {"judge"} /\ DoPack) \/ DoSpell
Spec == Init /\ [][Next]_pvars
TypeOK == res \in {"none", "ok", "err", "illegal", "panic", "diverge", "block"}
=============================================================================
