SPECIFICATION Spec
CONSTANTS
  MaxSub = 2
  MaxRel = 2
  MaxUps = 3
  Part = "algebra"
  SliceN = 1
  SliceI = 0
  DEV_LocalCollapse = FALSE
CHECK_DEADLOCK FALSE
