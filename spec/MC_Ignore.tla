----------------------------- MODULE MC_Ignore -----------------------------
(* Design check: the coded matcher + walk (L1) against the documented        *)
(* language (L0) for every rule list of the universe over a saturated tree.  *)
EXTENDS Ignore, Json

A == <<"a">>  AB == <<"a","b">>  B == <<"b">>
D == { A, AB }
F == { B, <<"b","a">> }
Tree == { [p |-> <<d>>, d |-> TRUE] : d \in D } \cup { [p |-> <<f>>, d |-> FALSE] : f \in F }
   \cup { [p |-> <<d1, d2>>, d |-> TRUE] : d1 \in D, d2 \in D } \cup { [p |-> <<d1, f>>, d |-> FALSE] : d1 \in D, f \in F }
   \cup { [p |-> <<d1, d2, f>>, d |-> FALSE] : d1 \in D, d2 \in D, f \in F }
SegPats == { <<"a">>, <<"b">>, <<"a","*">>, <<"*">>, <<"?">>, <<"*","a">> }
SegLists == { <<s>> : s \in SegPats } \cup { <<s, t>> : s \in SegPats \cup {DSeg}, t \in SegPats }
            \cup { <<s, DSeg, t>> : s \in {<<"a">>}, t \in {<<"b">>, <<"*">>} }
Rules == { SR(n, a, d, sg) : n \in BOOLEAN, a \in BOOLEAN, d \in BOOLEAN, sg \in SegLists }
Files(S) == { p \in S : \E n \in Tree : n.p = p /\ ~n.d }

VARIABLES rl, done
Init == rl = <<>> /\ done = FALSE
Pick == /\ ~done /\ Len(rl) < 2
        /\ \E r \in Rules : (Len(rl) = 1 => (r.neg /\ ~rl[1].neg)) /\ rl' = Append(rl, r)
        /\ done' = FALSE
Stop == ~done /\ done' = TRUE /\ rl' = rl
Next == Pick \/ Stop
Spec == Init /\ [][Next]_<<rl, done>>

Lines == [i \in DOMAIN rl |-> SpellRule(rl[i])]
L1Files == LET pr == ParseLines(Lines) IN Files(WalkShipped(Tree, [rules |-> pr.rules, flags |-> pr.flags]))
L0Files == Files(SpecShipped(Tree, rl))
Agree == L1Files = L0Files
RECURSIVE Cat(_)
Cat(s) == IF s = <<>> THEN "" ELSE Head(s) \o Cat(Tail(s))
Report == (~Agree /\ done) => PrintT(<<"DIFF", [i \in DOMAIN Lines |-> Cat(Lines[i])], "leak", { Cat(PathChars(p)) : p \in L1Files \ L0Files }, "lost", { Cat(PathChars(p)) : p \in L0Files \ L1Files }>>)
=============================================================================
