------------------------------- MODULE Bundle -------------------------------
(***************************************************************************)
(* sourcebundle.Bundle: manifest documents, OpenDir validation, forward     *)
(* lookups (address -> path under the root) and the reverse lookup          *)
(* (path -> address), for C18.                                              *)
(*                                                                         *)
(* A manifest is generated field-wise: format number, package entries       *)
(* [address class, directory-name class], registry entries.  L1 OpenOK is   *)
(* the validation as coded; L0 states what C18 demands of any bundle that   *)
(* opens: forward lookups stay inside the root, hostile directory names are *)
(* refused, reverse lookup inverts forward lookup, outside paths are        *)
(* reported as not belonging.                                               *)
(***************************************************************************)
EXTENDS Naturals, Sequences, FiniteSets, TLC, Json

CONSTANTS MaxPkgs, Part

SeqsUpTo(S, n) == UNION { [1..k -> S] : k \in 0..n }

\* address classes -> concrete strings
AddrOf(c) == CASE c = "A" -> "git::https://example.com/a.git"
               [] c = "B" -> "https://example.com/b.tgz"
               [] c = "B2" -> "git::https://example.com/long/path/b.git?ref=main"
               [] c = "sub" -> "git::https://example.com/a.git//sub"
               [] c = "bad" -> "not a source address"
               [] c = "http" -> "http://example.com/x.tgz"
AddrValid(c) == c \in {"A", "B", "B2"}
AddrClasses == {"A", "B", "B2", "sub", "bad", "http"}

\* directory-name classes -> concrete strings
DirOf(c) == CASE c = "d1" -> "d1" [] c = "D1" -> "D1" [] c = "d2" -> "d2" [] c = "hash" -> "Zm9vYmFyYmF6cXV4LWhhc2gtbGlrZQ"
              [] c = "nested" -> "a/b" [] c = "dot" -> "." [] c = "dotdot" -> ".." [] c = "empty" -> ""
              [] c = "abs" -> "/abs" [] c = "up" -> "../x" [] c = "downup" -> "a/.." [] c = "bs" -> "a\\b"
              [] c = "manifest" -> "terraform-sources.json" [] c = "tmp" -> ".tmp-x"
              [] c = "ddsp" -> ".. " [] c = "spdot" -> " ." [] c = "spd1" -> " d1"
DirClasses == {"d1", "D1", "d2", "hash", "nested", "dot", "dotdot", "empty", "abs", "up", "downup", "bs", "manifest", "tmp", "ddsp", "spdot", "spd1"}
\* L0: names C18 says must be refused (a separator, ".", ".." - and the empty name, which denotes the root itself)
DirHostile(c) == c \in {"nested", "dot", "dotdot", "empty", "abs", "up", "downup"}

Pkg(a, d) == [addr |-> a, dir |-> d]
RegEntry(a, v, s) == [addr |-> a, ver |-> v, src |-> s]
RegAddrOf(c) == IF c = "ok" THEN "example.com/ns/name/sys" ELSE IF c = "sub" THEN "example.com/ns/name/sys//sub" ELSE "!!"
VerOf(c) == IF c = "ok" THEN "1.2.3" ELSE "one.two"

\* L1: OpenDir as coded
OpenOK(fmt, pkgs, regs) ==
  /\ fmt = 1
  /\ \A i \in DOMAIN pkgs : ~DirHostile(pkgs[i].dir) /\ AddrValid(pkgs[i].addr)
  /\ \A i \in DOMAIN regs : regs[i].addr = "ok" /\ regs[i].ver = "ok" /\ regs[i].src \in {"A", "B", "B2", "sub"}

\* the directory an address maps to: the last entry for it wins
DirFor(pkgs, a) == LET idx == { i \in DOMAIN pkgs : pkgs[i].addr = a } IN
                   IF idx = {} THEN "none" ELSE pkgs[CHOOSE i \in idx : \A j \in idx : j <= i].dir

Case(fmt, pkgs, regs) ==
  [fam |-> "bundle", format |-> fmt,
   pkgs |-> [i \in DOMAIN pkgs |-> [source |-> AddrOf(pkgs[i].addr), local |-> DirOf(pkgs[i].dir), aclass |-> pkgs[i].addr, dclass |-> pkgs[i].dir]],
   regs |-> [i \in DOMAIN regs |-> [source |-> RegAddrOf(regs[i].addr), version |-> VerOf(regs[i].ver), target |-> AddrOf(regs[i].src)]],
   open |-> OpenOK(fmt, pkgs, regs),
   hostile |-> \E i \in DOMAIN pkgs : DirHostile(pkgs[i].dir),
   \* forward lookups the replayer performs: address class -> expected directory (or none)
   lookups |-> { [a |-> AddrOf(a), dir |-> (IF DirFor(pkgs, a) = "none" THEN "" ELSE DirOf(DirFor(pkgs, a))), present |-> DirFor(pkgs, a) # "none"] : a \in {"A", "B", "B2"} }]

\* all lists of up to two entries over every class; lists of three entries (MaxPkgs = 3) over the classes that can
\* alias, shadow or re-point one another (the full cube exceeds what TLC enumerates as one set)
PkgSmall == { Pkg(a, d) : a \in {"A", "B", "sub"}, d \in {"d1", "D1", "d2", "dotdot", "ddsp", "manifest"} }
PkgLists == SeqsUpTo({ Pkg(a, d) : a \in AddrClasses, d \in DirClasses }, IF MaxPkgs > 2 THEN 2 ELSE MaxPkgs)
            \cup (IF MaxPkgs > 2 THEN [1..3 -> PkgSmall] ELSE {})
RegLists == { <<>> } \cup { <<RegEntry(a, v, s)>> : a \in {"ok", "sub", "bad"}, v \in {"ok", "bad"}, s \in {"A", "sub", "bad"} }

VARIABLES phase, part
Parts == IF Part = "none" THEN { <<0, "x">> } ELSE { <<f, a>> : f \in {0, 1, 2}, a \in AddrClasses }
Init == phase = 0 /\ part \in Parts
Emit(pt) ==
  \A pl \in { x \in PkgLists : x # <<>> /\ x[1].addr = pt[2] }, rl \in (IF pt[1] = 1 THEN RegLists ELSE { <<>> }) :
     PrintT("@@" \o ToJson(Case(pt[1], pl, rl)))
EmitEmpty == \A f \in {0, 1, 2} : PrintT("@@" \o ToJson(Case(f, <<>>, <<>>)))
Next == phase = 0 /\ Part # "none" /\ Emit(part) /\ (part = <<1, "A">> => EmitEmpty) /\ phase' = 1 /\ part' = part
Spec == Init /\ [][Next]_<<phase, part>>
=============================================================================
