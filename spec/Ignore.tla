------------------------------- MODULE Ignore -------------------------------
(***************************************************************************)
(* The .terraformignore rule language.                                      *)
(*                                                                         *)
(*  L0  SpecExcluded: the documented language, written segment-wise on      *)
(*      structured rules [neg, anch, dir, segs].                            *)
(*  L1  ParseLines / Compile / RM / Excludes: internal/ignorefiles as       *)
(*      coded, on character sequences: line handling, the "**/" / "/**"     *)
(*      rewriting, the translation to a regular expression (as a token      *)
(*      list) and anchored matching of the flattened path string, the       *)
(*      negationsAfter flags and the "dominating" result.                   *)
(*                                                                         *)
(* Names are character sequences here ('*' and '?' act inside a segment).   *)
(* VARIABLE-free; DEV_* constants name the deviations of the pinned commit. *)
(***************************************************************************)
EXTENDS Naturals, Sequences, FiniteSets, TLC

CONSTANTS
  DEV_BlankPanics,     \* whitespace-only line / lone "!" index out of range (candidate 5)
  DEV_StarEmptySeg     \* a whole-segment "*" also matches the empty segment (candidate 7)

\* ---------- L0: segment-wise glob ----------
RECURSIVE GlobSeg(_,_)
GlobSeg(pat, name) ==
  IF pat = <<>> THEN name = <<>>
  ELSE IF Head(pat) = "*" THEN GlobSeg(Tail(pat), name) \/ (name # <<>> /\ GlobSeg(pat, Tail(name)))
  ELSE IF name = <<>> THEN FALSE
  ELSE IF Head(pat) = "?" THEN GlobSeg(Tail(pat), Tail(name))
  ELSE Head(pat) = Head(name) /\ GlobSeg(Tail(pat), Tail(name))

DSeg == <<"*", "*">>          \* the "**" segment

RECURSIVE MatchSegs(_,_)
MatchSegs(segs, path) ==      \* whole-path match; "**" = zero or more whole segments
  IF segs = <<>> THEN path = <<>>
  ELSE IF Head(segs) = DSeg THEN MatchSegs(Tail(segs), path) \/ (path # <<>> /\ MatchSegs(segs, Tail(path)))
  ELSE path # <<>> /\ Head(path) # <<>> /\ GlobSeg(Head(segs), Head(path)) /\ MatchSegs(Tail(segs), Tail(path))

Suffixes(path) == { SubSeq(path, i, Len(path)) : i \in 1..Len(path) }

\* a trailing "/**" means the same as a trailing "/"
NormRule(r) == IF Len(r.segs) > 1 /\ r.segs[Len(r.segs)] = DSeg
               THEN [r EXCEPT !.segs = SubSeq(r.segs, 1, Len(r.segs) - 1), !.dir = TRUE] ELSE r

\* does rule r0 select the entity (path, isDir)?  path: sequence of names (char seqs)
SpecRuleMatch(r0, path, isDir) ==
  LET r == NormRule(r0)
      cands == IF r.anch THEN {path} ELSE Suffixes(path) IN
  \E p \in cands :
     IF r.dir
     THEN \E k \in 1..Len(p) : MatchSegs(r.segs, SubSeq(p, 1, k)) /\ (k < Len(p) \/ isDir)
     ELSE MatchSegs(r.segs, p)

RECURSIVE SpecExclAcc(_,_,_,_)
SpecExclAcc(rules, path, isDir, acc) ==
  IF rules = <<>> THEN acc
  ELSE SpecExclAcc(Tail(rules), path, isDir,
                   IF SpecRuleMatch(Head(rules), path, isDir) THEN ~Head(rules).neg ELSE acc)

Chs(s) == s     \* names are already character sequences
Nm(cs) == cs
SR(neg, anch, dir, segs) == [neg |-> neg, anch |-> anch, dir |-> dir, segs |-> segs]
DotGit == <<".","g","i","t">>
DotTerraform == <<".","t","e","r","r","a","f","o","r","m">>
Modules == <<"m","o","d","u","l","e","s">>
\* built-in rules, in the order the code lists them
SpecDefaults == << SR(FALSE, FALSE, TRUE, <<DotTerraform>>),
                   SR(TRUE,  FALSE, TRUE, <<DotTerraform, Modules>>),
                   SR(FALSE, FALSE, TRUE, <<DotGit>>) >>

\* L0 verdict for one entity under defaults + user rules
SpecExcluded(userRules, path, isDir) == SpecExclAcc(SpecDefaults \o userRules, path, isDir, FALSE)

\* ---------- spelling of a structured rule as a line of the rule file ----------
RECURSIVE FlatSegs(_)
FlatSegs(segs) ==
  IF segs = <<>> THEN <<>>
  ELSE IF Len(segs) = 1 THEN Head(segs) ELSE Head(segs) \o <<"/">> \o FlatSegs(Tail(segs))
SpellRule(r) == (IF r.neg THEN <<"!">> ELSE <<>>) \o (IF r.anch THEN <<"/">> ELSE <<>>)
                \o FlatSegs(r.segs) \o (IF r.dir THEN <<"/">> ELSE <<>>)

\* ---------- L1: readRules as coded ----------
IsSpace(c) == c \in {" ", "\t"}
RECURSIVE TrimL(_)
TrimL(s) == IF s # <<>> /\ IsSpace(Head(s)) THEN TrimL(Tail(s)) ELSE s
RECURSIVE TrimR(_)
TrimR(s) == IF s # <<>> /\ IsSpace(s[Len(s)]) THEN TrimR(SubSeq(s, 1, Len(s) - 1)) ELSE s
TrimSpace(s) == TrimR(TrimL(s))

\* one line -> [t |-> "skip"] | [t |-> "panic"] | [t |-> "rule", val, neg]
ParseLine(line) ==
  IF line = <<>> THEN [t |-> "skip"]
  ELSE LET p0 == TrimSpace(line) IN
    IF p0 = <<>> THEN (IF DEV_BlankPanics THEN [t |-> "panic"] ELSE [t |-> "skip"])
    ELSE IF p0[1] = "#" THEN [t |-> "skip"]
    ELSE LET neg == p0[1] = "!"
             p1 == IF neg THEN Tail(p0) ELSE p0 IN
      IF p1 = <<>> THEN (IF DEV_BlankPanics THEN [t |-> "panic"] ELSE [t |-> "skip"])
      ELSE LET p2 == IF p1[Len(p1)] = "/" THEN p1 \o <<"*","*">> ELSE p1
               val == IF p2[1] = "/" THEN Tail(p2) ELSE <<"*","*","/">> \o p2
           IN [t |-> "rule", val |-> val, neg |-> neg]

DefaultVals == << [val |-> <<"*","*","/">> \o DotTerraform \o <<"/","*","*">>, neg |-> FALSE],
                  [val |-> <<"*","*","/">> \o DotTerraform \o <<"/">> \o Modules \o <<"/","*","*">>, neg |-> TRUE],
                  [val |-> <<"*","*","/">> \o DotGit \o <<"/","*","*">>, neg |-> FALSE] >>
DefaultFlags == <<TRUE, FALSE, FALSE>>         \* negationsAfter of the three default rules

\* the back-marking loop: from index i downwards, stop at the first flag already set
RECURSIVE MarkBack(_,_)
MarkBack(flags, i) == IF i = 0 \/ flags[i] THEN flags ELSE MarkBack([flags EXCEPT ![i] = TRUE], i - 1)

\* fold of the lines: [st, rules, flags]
RECURSIVE ParseAcc(_,_,_)
ParseAcc(lines, rules, flags) ==
  IF lines = <<>> THEN [st |-> "ok", rules |-> rules, flags |-> flags]
  ELSE LET pl == ParseLine(Head(lines)) IN
    IF pl.t = "panic" THEN [st |-> "panic", rules |-> rules, flags |-> flags]
    ELSE IF pl.t = "skip" THEN ParseAcc(Tail(lines), rules, flags)
    ELSE LET f1 == IF pl.neg THEN MarkBack(flags, Len(flags)) ELSE flags IN
         ParseAcc(Tail(lines), Append(rules, [val |-> pl.val, neg |-> pl.neg]), Append(f1, FALSE))
ParseLines(lines) == ParseAcc(lines, DefaultVals, DefaultFlags)

\* ---------- L1: rule.compile as a token list ----------
\* "DS" = (.*/)?   "ALL" = .*   "STAR" = [^/]*   "PLUS" = [^/]+   "Q" = [^/]   else a literal character
AtSegStart(prev) == prev = "" \/ prev = "/"
RECURSIVE CompileFrom(_,_)
CompileFrom(v, prev) ==      \* prev: the pattern character before Head(v) ("" at the start)
  IF v = <<>> THEN <<>>
  ELSE IF Head(v) = "*" THEN
         IF Len(v) >= 2 /\ v[2] = "*" THEN
            LET rest == IF Len(v) >= 3 /\ v[3] = "/" THEN SubSeq(v, 4, Len(v)) ELSE SubSeq(v, 3, Len(v))
                pv == IF Len(v) >= 3 /\ v[3] = "/" THEN "/" ELSE "*" IN
            IF rest = <<>> THEN <<"ALL">> ELSE <<"DS">> \o CompileFrom(rest, pv)
         ELSE LET whole == AtSegStart(prev) /\ (Len(v) = 1 \/ v[2] = "/") IN
              (IF whole /\ ~DEV_StarEmptySeg THEN <<"PLUS">> ELSE <<"STAR">>) \o CompileFrom(Tail(v), "*")
  ELSE IF Head(v) = "?" THEN <<"Q">> \o CompileFrom(Tail(v), "?")
  ELSE IF Head(v) = "\\" THEN
         IF Len(v) >= 2 THEN <<v[2]>> \o CompileFrom(SubSeq(v, 3, Len(v)), v[2]) ELSE <<"\\">>
  ELSE <<Head(v)>> \o CompileFrom(Tail(v), Head(v))
Compile(v) == CompileFrom(v, "")

RECURSIVE RM(_,_)
RM(toks, s) ==     \* anchored match of the token list against the character sequence s
  IF toks = <<>> THEN s = <<>>
  ELSE LET t == Head(toks) IN
    IF t = "ALL" THEN \E i \in 0..Len(s) : RM(Tail(toks), SubSeq(s, i + 1, Len(s)))
    ELSE IF t = "DS" THEN RM(Tail(toks), s) \/ (\E i \in 1..Len(s) : s[i] = "/" /\ RM(Tail(toks), SubSeq(s, i + 1, Len(s))))
    ELSE IF t = "STAR" THEN RM(Tail(toks), s) \/ (s # <<>> /\ Head(s) # "/" /\ RM(toks, Tail(s)))
    ELSE IF t = "PLUS" THEN s # <<>> /\ Head(s) # "/" /\ (RM(Tail(toks), Tail(s)) \/ RM(toks, Tail(s)))
    ELSE IF t = "Q" THEN s # <<>> /\ Head(s) # "/" /\ RM(Tail(toks), Tail(s))
    ELSE s # <<>> /\ Head(s) = t /\ RM(Tail(toks), Tail(s))

\* Ruleset.Excludes(string): the last matching rule decides
RECURSIVE ExclAcc(_,_,_,_,_)
ExclAcc(rules, flags, s, i, acc) ==
  IF i > Len(rules) THEN acc
  ELSE ExclAcc(rules, flags, s, i + 1,
               IF RM(Compile(rules[i].val), s)
               THEN [ex |-> ~rules[i].neg, dom |-> (~rules[i].neg) /\ ~flags[i]] ELSE acc)
Excludes(rs, s) == ExclAcc(rs.rules, rs.flags, s, 1, [ex |-> FALSE, dom |-> FALSE])
\* Ruleset.ExcludesDir(string) (fix: directory entries): a rule selects a directory if it matches the path
\* as given or in its directory form
RECURSIVE ExclDirAcc(_,_,_,_,_)
ExclDirAcc(rules, flags, s, i, acc) ==
  IF i > Len(rules) THEN acc
  ELSE ExclDirAcc(rules, flags, s, i + 1,
               IF RM(Compile(rules[i].val), s) \/ RM(Compile(rules[i].val), s \o <<"/">>)
               THEN [ex |-> ~rules[i].neg, dom |-> (~rules[i].neg) /\ ~flags[i]] ELSE acc)
ExcludesDir(rs, s) == ExclDirAcc(rs.rules, rs.flags, s, 1, [ex |-> FALSE, dom |-> FALSE])
NoRules == [rules |-> <<>>, flags |-> <<>>]      \* ignore processing off: nil ruleset

\* path (sequence of names) as the string the code matches
RECURSIVE PathChars(_)
PathChars(path) == IF path = <<>> THEN <<>> ELSE IF Len(path) = 1 THEN path[1]
                   ELSE path[1] \o <<"/">> \o PathChars(Tail(path))

\* ---------- the walk's use of the rules on a saturated tree (design check) ----------
\* tree: set of [p, d]; returns the set of shipped entity paths
Children(tree, p) == { n \in tree : Len(n.p) = Len(p) + 1 /\ SubSeq(n.p, 1, Len(p)) = p }
RECURSIVE WalkShip(_,_,_)
WalkShip(tree, rs, node) ==
  LET s == PathChars(node.p)
      r1 == Excludes(rs, s)
      kids == UNION { WalkShip(tree, rs, c) : c \in Children(tree, node.p) }
  IN IF r1.ex THEN (IF node.d THEN kids ELSE {})
     ELSE IF node.d THEN
          LET r2 == Excludes(rs, s \o <<"/">>) IN
          IF r2.ex THEN (IF r2.dom THEN {} ELSE kids) ELSE {node.p} \cup kids
     ELSE {node.p}
WalkShipped(tree, rs) == UNION { WalkShip(tree, rs, n) : n \in { m \in tree : Len(m.p) = 1 } }
SpecShipped(tree, userRules) == { n.p : n \in { m \in tree : ~SpecExcluded(userRules, m.p, m.d) } }
=============================================================================
