----------------------------- MODULE Judge_Pack -----------------------------
(* L0 predicates of the Pack family evaluated on outcomes observed from the   *)
(* real code (status, slug entries read back with archive/tar, returned Meta, *)
(* round-trip tree), together with the L1 prediction for the same input.      *)
EXTENDS MC_Pack

Obs == ndJsonDeserialize("mismatch.ndjson")

TreeOf(o) == FromSnapshot(Seq2Set(o.tree)) @@ (Root :> D7)
OptsOf(o) == [ign |-> o.opts.ign, deref |-> o.opts.deref, allow |-> Seq2Set(o.opts.allow), allowrel |-> Seq2Set(o.opts.allowrel)]
RtOf(o) == [st |-> o.rt.st, tree |-> SubTree(FromSnapshot(Seq2Set(o.rt.fs)), MCOut)]
PreOf(o) == IF "pre" \in DOMAIN o THEN o.pre ELSE <<>>

JudgeOne(i) ==
  LET o == Obs[i]
      f == TreeOf(o)
      opts == OptsOf(o)
      lines == [j \in DOMAIN o.rules |-> SpellRule(o.rules[j])]
      l1 == PackRun(f, o.cwd, o.spelling, opts, lines)
      canon == PackRun(f, <<"A">>, <<"", "A", "src">>, opts, lines)
      u == IF l1.st = "ok" THEN UnpackOf(f, l1.out) ELSE [st |-> "none", fs |-> f]
      l1rt == [st |-> u.st, tree |-> SubTree(u.fs, MCOut)]
      race == IF "race" \in DOMAIN o THEN o.race ELSE FALSE
      \* the watchdog's names for what the model calls diverge (stack exhaustion or no return) and block (no return)
      ost == IF l1.st = "diverge" /\ o.st \in {"crash", "hang"} THEN "diverge" ELSE IF l1.st = "block" /\ o.st = "hang" THEN "block" ELSE o.st
  IN PrintT("@@" \o ToJson([fam |-> "judge", idx |-> i,
        same |-> (ost = l1.st /\ (l1.st = "ok" => o.out = l1.out /\ RtOf(o) = l1rt)),       \* observation = L1 prediction
        v |-> Verdict(f, opts, o.rules, ost, o.out, o.meta, RtOf(o), l1)
              @@ [c16 |-> ~race /\ o.st = canon.st /\ (canon.st = "ok" => o.out = canon.out),
                  w16 |-> (IF race THEN {"data-race"} ELSE {}) \cup (IF o.st # canon.st THEN {"status:" \o o.st \o "/" \o canon.st} ELSE {})
                          \cup (IF canon.st = "ok" /\ o.st = "ok" /\ o.out # canon.out THEN {"entries-differ-from-canonical"} ELSE {}),
                  kf16 |-> KF16Class(f, o.cwd, o.spelling, o.st, o.out, canon)],
        l1 |-> [st |-> l1.st, why |-> "", v |-> Verdict(f, opts, o.rules, l1.st, l1.out, MetaOf(l1.out), l1rt, l1)
              @@ [c16 |-> l1.st = canon.st /\ (canon.st = "ok" => l1.out = canon.out),
                  w16 |-> (IF l1.st # canon.st THEN {"status:" \o l1.st \o "/" \o canon.st} ELSE {})
                          \cup (IF canon.st = "ok" /\ l1.st = "ok" /\ l1.out # canon.out THEN {"entries-differ-from-canonical"} ELSE {}),
                  kf16 |-> ""]]]))

ASSUME \A i \in DOMAIN Obs : JudgeOne(i)
=============================================================================
