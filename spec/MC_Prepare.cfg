SPECIFICATION Spec
CONSTANTS
  PUniverse = "links"
  PRuleMode = "none"
  Target <- MCTarget
  NameChars <- PNameChars
  NameOrder <- PNameOrder
  DEV_BlankPanics = FALSE
  DEV_StarEmptySeg = FALSE
  DEV_IgnoreRelToSrc = FALSE
  DEV_NestedDstFsPath = FALSE
  DEV_LinkValidatedOnDisk = FALSE
  DEV_DerefSpecial = FALSE
  DEV_DirEntryByOwnPath = FALSE
  DEV_PrepOwnPathDirRemoved = FALSE
  DEV_PrepPruneNonDominating = FALSE
  DEV_PrepAbsLinkAccepted = FALSE
  DEV_PrepReenterAccepted = FALSE
CHECK_DEADLOCK FALSE
