----------------------------- MODULE MC_Unpack -----------------------------
(* Bounded universes for the Unpack family.  Arena:                         *)
(*   /A            the arena                                                *)
(*   /A/d          destination          /A/dx   sibling sharing the prefix  *)
(*   /A/v          victim file          /A/w    victim directory            *)
EXTENDS Unpack

Arena == <<"A">>
MCDst == <<"A", "d">>
MCFS0 == (Root :> DirNode(755, 1)) @@ (Arena :> DirNode(755, 1)) @@ (MCDst :> DirNode(755, 1))
         @@ (<<"A","dx">> :> DirNode(755, 1)) @@ (<<"A","v">> :> FileNode(600, 1, 7))
         @@ (<<"A","w">> :> DirNode(700, 1))
MCSP == { <<"d", "dx">> }

E(n,k,m,t,c,tg) == [name |-> n, k |-> k, m |-> m, t |-> t, c |-> c, tgt |-> tg]

\* --- safety alphabet (C01 / C04 / C12): hostile names and targets ---
NamesQ == { <<"a">>, <<"a","">>, <<"..n">>, <<"..">>, <<"s","u">>, <<"s","u","a">>, <<"","a">>, <<"..","dx","f">>, <<"s","..","a">>, <<"x","..","a","f">> }
NamesT == NamesQ \cup { <<"","","a">>, <<"b">>, <<"s","">>, <<".","b">>, <<"b","c">>, <<"">>, <<"","">>, <<".">>, <<"s","","a">>, <<"..","d","a">> }
TargetsQ == { <<"b">>, <<"..">>, <<"..","d","a">>, <<"..","dx">>, <<"s","u","..","v">>, <<"s","u","..","w">>, <<"","A","v">>, <<"","A","d","a">>, <<"a","..","..","w">> }
TargetsT == TargetsQ \cup { <<"..","..","v">>, <<"..","a">>, <<"s","u","..","w">>, <<".">>, <<"","A","dx">> , <<"u","..","..","v">> }

Alpha(Names, Targets) ==
   { E(n, "f", x[1], 2, x[2], <<>>) : n \in Names, x \in { <<644, 1>>, <<444, 2>> } }
   \cup { E(n, "d", m, 3, 0, <<>>) : n \in Names, m \in {755, 555} }
   \cup { E(n, "l", 777, 4, 0, tg) : n \in Names, tg \in Targets }
   \cup { E(<<"a">>, k, 644, 2, 0, <<>>) : k \in {"p", "h", "g"} }
   \* entries that prescribe nothing themselves (PAX global headers) but name a path two levels below a link,
   \* and the same path as a file; absolute targets that clean to exactly the parent of dst
   \cup { E(n, "g", 644, 2, 0, <<>>) : n \in { <<"a","p","x">>, <<"s","u","a","x">> } }
   \cup { E(<<"a","p","x">>, "f", 644, 2, 1, <<>>) }
   \cup { E(n, "l", 777, 4, 0, tg) : n \in { <<"a">>, <<"s","u">> }, tg \in { <<"","A">>, <<"","A","d","..">> } }
   \* backslashes are ordinary characters of a name: a target or a name spelled with them is one segment
   \cup { E(<<"a">>, "l", 777, 4, 0, <<"..\\v">>), E(<<"..\\v">>, "f", 644, 2, 1, <<>>) }
AlphaQuick == Alpha(NamesQ, TargetsQ)
AlphaThorough == Alpha(NamesT, TargetsT)

\* --- fidelity alphabet (C15): a small path universe, well-formed spellings ---
NamesF == { <<"a">>, <<"b">>, <<"..n">>, <<"s","..n">>, <<"s","">>, <<"s">>, <<"s","a">>, <<"s","t","">>, <<"s","t","a">>, <<"","a">>, <<".","s","a">>, <<".","b">> }
TargetsF == { <<"a">>, <<"s","a">>, <<"..","a">>, <<"t","a">>, <<"nowhere">> }
AlphaFidelity ==
   { E(n, "f", m, t, c, <<>>) : n \in NamesF \ {<<"s","">>, <<"s","t","">>, <<"s">>}, m \in {644, 400}, t \in {2}, c \in {0, 1, 2} }
   \cup { E(n, "d", m, t, 0, <<>>) : n \in {<<"s","">>, <<"s">>, <<"s","t","">>, <<".","s","">>}, m \in {755, 500, 700}, t \in {3, 5} }
   \cup { E(<<"a">>, "f", 644, 900, 1, <<>>), E(<<"s","">>, "d", 755, 900, 0, <<>>) }
   \cup { E(n, "l", 777, 4, 0, tg) : n \in {<<"b">>, <<"s","a">>, <<"s","l">>, <<"","a">>, <<"","","a">>}, tg \in TargetsF }
   \cup { E(<<"pax_global_header">>, "g", 644, 2, 0, <<>>), E(<<"a">>, "p", 644, 2, 0, <<>>), E(<<"b">>, "h", 644, 2, 0, <<"a">>) }
AlphaFidelityQ ==
   { E(n, "f", m, 2, c, <<>>) : n \in { <<"a">>, <<"s","a">>, <<"","a">>, <<".","s","a">>, <<"s","t","a">>, <<"..n">> }, m \in {644, 400}, c \in {0, 2} }
   \cup { E(n, "d", m, 3, 0, <<>>) : n \in {<<"s","">>, <<"s">>, <<"s","t","">>}, m \in {755, 500} }
   \cup { E(<<"s","">>, "d", 700, 5, 0, <<>>) }
   \* time 900 is the Unix epoch itself (an mtime field of zero)
   \cup { E(<<"a">>, "f", 644, 900, 1, <<>>), E(<<"s","">>, "d", 755, 900, 0, <<>>) }
   \cup { E(n, "l", 777, 4, 0, tg) : n \in {<<"b">>, <<"s","l">>, <<"","","a">>, <<"s">>}, tg \in { <<"a">>, <<"..","a">>, <<"nowhere">> } }
   \cup { E(<<"pax_global_header">>, "g", 644, 2, 0, <<>>), E(<<"a">>, "p", 644, 2, 0, <<>>), E(<<"b">>, "h", 644, 2, 0, <<"a">>) }

\* --- privilege alphabet (C15, unprivileged caller): read-only files overwritten, directory modes without w / x / r ---
MCTrue == TRUE
MCFalse == FALSE
AlphaPriv ==
   { E(n, "f", m, 2, c, <<>>) : n \in { <<"a">>, <<"s","a">>, <<"s","t","a">> }, m \in {644, 400, 0}, c \in {1, 2} }
   \cup { E(n, "d", m, 3, 0, <<>>) : n \in { <<"s","">>, <<"s","t","">> }, m \in {755, 500, 300, 600, 0} }
   \cup { E(<<"b">>, "l", 777, 4, 0, <<"a">>), E(<<"s","l">>, "l", 777, 4, 0, <<"..","a">>) }

\* --- allow-list alphabet (C04 with AllowSymlinkTarget): A/w is allow-listed ---
MCAllowW == { <<"A","w">> }
AlphaAllow ==
   { E(n, "l", 777, 4, 0, tg) : n \in { <<"a">>, <<"s","a">> }, tg \in { <<"b">>, <<"..","w">>, <<"..","..","w">>, <<"..","..","w","x">>, <<"..","dx">>, <<"..","..","..","w">> } }
   \cup { E(n, "f", 644, 2, 1, <<>>) : n \in { <<"a">>, <<"a","f">> } } \cup { E(<<"a">>, "d", 755, 3, 0, <<>>) }

\* --- degenerate names (C19): nothing but separators and dots ---
NamesDegenerate == { <<"">>, <<"","">>, <<"","","">>, <<".">>, <<".","">>, <<"..">>, <<"","..">>, <<"a","","b">>, <<"",".","">>, <<"a",".">>, <<".",".","a">> }
AlphaDegenerate ==
   { E(n, k, 644, 2, 1, IF k = "l" THEN <<"b">> ELSE <<>>) : n \in NamesDegenerate, k \in {"f", "d", "l", "g", "p"} }
   \cup { E(<<"a">>, "l", 777, 4, 0, tg) : tg \in { <<>>, <<"">>, <<"","">>, <<".">>, <<"","..">> } }

\* one header record per run: the arena the cases are to be replayed in
Header == [fam |-> "unpack-h", fs0 |-> Snapshot(FS0), dst |-> Dst, sp |-> SP, allow |-> Allow]
ASSUME Emit => PrintT("@@" \o ToJson(Header))
=============================================================================
