SPECIFICATION Spec
CONSTANTS
  Universe = "judge"
  RuleMode = "none"
  NameChars <- MCNameChars
  NameOrder <- MCNameOrder
  RTDst <- MCOut
  DEV_BlankPanics = FALSE
  DEV_StarEmptySeg = FALSE
  DEV_IgnoreRelToSrc = FALSE
  DEV_NestedDstFsPath = FALSE
  DEV_LinkValidatedOnDisk = FALSE
  DEV_DerefSpecial = FALSE
  DEV_DirEntryByOwnPath = FALSE
INVARIANT TypeOK
CHECK_DEADLOCK FALSE
