-------------------------------- MODULE Pack --------------------------------
(***************************************************************************)
(* slug.Packer.Pack (slug.go:133-370, terraformignore.go) as operators over *)
(* the abstract filesystem: the lexical-order walk, the ignore test on the  *)
(* archive path with directory pruning, header construction, symlink        *)
(* classification, and the dereference step with nested walk frames.        *)
(*                                                                         *)
(*  L1  PackRun(f, cwd, spelling, opts)  ->  [st, out]                      *)
(*      st : ok | err | illegal | panic | diverge | block                   *)
(*      out: sequence of entries [k, name, m, t, c, tgt] (same shape as the *)
(*           Unpack alphabet; directory names end in the token "")          *)
(*  L0  the property predicates C03 / C05 / C20 / C19 / C16 over an          *)
(*      outcome, evaluated on the model's outcome and on the real one.      *)
(***************************************************************************)
EXTENDS FS, Ignore, Json

CONSTANTS
  NameChars,            \* name token -> character sequence (for rule matching)
  NameOrder,            \* sequence of all name tokens in byte order (filepath.Walk order)
  DEV_IgnoreRelToSrc,   \* in a dereferenced directory rules see the path relative to the external dir (cand. 9)
  DEV_NestedDstFsPath,  \* a dereferenced directory inside a dereferenced directory is named by its filesystem path (cand. 19)
  DEV_LinkValidatedOnDisk, \* inside a dereferenced directory a link is validated at its filesystem path, not its slug position
  DEV_DerefSpecial,     \* a link to a fifo is dereferenced like a file: os.Open blocks (cand. 11)
  DEV_DirEntryByOwnPath \* a directory's own entry is decided by its slash-less path alone (a directory re-included by "!dir/" loses its entry)

DerefDepth == 3         \* nested walk frames before the model says "diverge"
ResolveFuel == 4        \* link chain length before resolveExternalLink "diverges"

Ord(n) == CHOOSE i \in 1..Len(NameOrder) : NameOrder[i] = n
RECURSIVE SortNames(_)
SortNames(S) == IF S = {} THEN <<>> ELSE
   LET m == CHOOSE x \in S : \A y \in S : Ord(x) <= Ord(y) IN <<m>> \o SortNames(S \ {m})
Kids(f, p) == SortNames(KidNames(f, p))

\* time.Round(time.Second) on the abstract time encoding: t < 1000 is whole seconds,
\* t >= 1000 encodes sec*10 + tenths as 1000 + sec*10 + tenths
RoundT(t) == IF t < 1000 THEN t ELSE LET x == t - 1000 IN (x \div 10) + (IF x % 10 >= 5 THEN 1 ELSE 0)

PChars(rel) == PathChars([i \in DOMAIN rel |-> NameChars[rel[i]]])

E(k, name, m, t, c, tgt) == [k |-> k, name |-> name, m |-> m, t |-> t, c |-> c, tgt |-> tgt]

AbsOf(path, tgt) == IF IsAbsT(tgt) THEN JoinClean(Root, tgt) ELSE JoinClean(Parent(path), tgt)
AllowedP(allow, at) == \E a \in allow : Under(at, a)
\* a relative target must stay inside root without climbing above it (fix d958749)
LocalFrom(root, path, tgt) ==
  Under(Parent(path), root) /\ Under(JoinClean(<<"#root">> \o SubSeq(Parent(path), Len(root) + 1, Len(path) - 1), tgt), <<"#root">>)
ValidLinkP(root, allow, path, tgt) ==
  (Under(AbsOf(path, tgt), root) /\ (IsAbsT(tgt) \/ LocalFrom(root, path, tgt))) \/ AllowedP(allow, AbsOf(path, tgt))

\* resolveExternalLink(root, path): lexical join, Lstat, recurse on links
RECURSIVE ResolveExt(_,_,_)
ResolveExt(f, p, fuel) ==
  LET r == ResAbs(f, p, FALSE) IN
  IF r.st # "ok" \/ f[r.p].k # "l" THEN [st |-> "err"]
  ELSE LET abs == AbsOf(p, f[r.p].tgt)
           r2 == ResAbs(f, abs, FALSE) IN
       IF r2.st # "ok" THEN [st |-> "err"]
       ELSE IF f[r2.p].k = "l" THEN (IF fuel = 0 THEN [st |-> "diverge"] ELSE ResolveExt(f, abs, fuel - 1))
       ELSE [st |-> "ok", abs |-> abs, phys |-> r2.p, info |-> f[r2.p]]

\* ctx: [f, root, rs, ign, deref, allow]
RECURSIVE WalkNode(_,_,_,_,_)
RECURSIVE WalkKids(_,_,_,_,_,_)
\* frame: [src, dst] (clean absolute); lex: the path filepath.Walk hands to the function
WalkNode(ctx, fr, lex, depth, isRoot) ==
  LET f == ctx.f
      pr == ResAbs(f, lex, FALSE)
  IN IF pr.st # "ok" THEN [out |-> <<>>, st |-> "err"]
  ELSE
  LET phys == pr.p
      node == f[phys]
      relSrc == SubSeq(lex, Len(fr.src) + 1, Len(lex))
      mapped == fr.dst \o relSrc                         \* strings.Replace(path, src, dst, 1)
      arel == RelP(ctx.root, mapped)                     \* archive-relative name
      irel == IF DEV_IgnoreRelToSrc THEN relSrc ELSE arel
      s == PChars(irel)
      x1 == IF ctx.ign THEN Excludes(ctx.rs, s) ELSE [ex |-> FALSE, dom |-> FALSE]
      x2 == IF ctx.ign /\ node.k = "d" THEN Excludes(ctx.rs, s \o <<"/">>) ELSE [ex |-> FALSE, dom |-> FALSE]
      xd == IF ctx.ign /\ node.k = "d" /\ ~DEV_DirEntryByOwnPath THEN ExcludesDir(ctx.rs, s) ELSE x1      \* the directory's own entry
      skipSelf == relSrc = <<>> \/ (IF node.k = "d" THEN xd.ex ELSE x1.ex) \/ x2.ex \/ arel = <<>>
      prune == relSrc # <<>> /\ (DEV_IgnoreRelToSrc \/ arel # <<>>) /\ (DEV_DirEntryByOwnPath => ~x1.ex) /\ x2.ex /\ x2.dom
      here ==
        IF skipSelf THEN [out |-> <<>>, st |-> "ok", walk |-> ~prune]
        ELSE IF node.k = "d" THEN [out |-> <<E("d", Append(arel, ""), node.m, RoundT(node.t), 0, <<>>)>>, st |-> "ok", walk |-> TRUE]
        ELSE IF node.k = "f" THEN [out |-> <<E("f", arel, node.m, RoundT(node.t), node.c, <<>>)>>, st |-> "ok", walk |-> FALSE]
        ELSE IF node.k = "p" THEN [out |-> <<>>, st |-> "ok", walk |-> FALSE]            \* special file: skipped
        ELSE \* symlink
          IF ValidLinkP(ctx.root, ctx.allow, IF DEV_LinkValidatedOnDisk THEN lex ELSE mapped, node.tgt)
            THEN [out |-> <<E("l", arel, 777, RoundT(node.t), 0, node.tgt)>>, st |-> "ok", walk |-> FALSE]
          ELSE IF ~ctx.deref THEN [out |-> <<>>, st |-> "illegal", walk |-> FALSE]
          ELSE LET rs == ResolveExt(f, lex, ResolveFuel) IN
               IF rs.st # "ok" THEN [out |-> <<>>, st |-> rs.st, walk |-> FALSE]
               ELSE IF rs.info.k = "d" THEN
                    (IF depth = 0 THEN [out |-> <<>>, st |-> "diverge", walk |-> FALSE]
                     ELSE LET nd == IF DEV_NestedDstFsPath THEN lex ELSE mapped
                              r == WalkNode(ctx, [src |-> rs.abs, dst |-> nd], rs.abs, depth - 1, TRUE)
                          IN [out |-> r.out, st |-> r.st, walk |-> FALSE])
               ELSE IF rs.info.k = "p" THEN
                    (IF DEV_DerefSpecial THEN [out |-> <<>>, st |-> "block", walk |-> FALSE]
                     ELSE [out |-> <<>>, st |-> "ok", walk |-> FALSE])
               ELSE LET op == ResAbs(f, lex, TRUE) IN               \* os.Open(path): the kernel follows the chain
                    IF op.st # "ok" \/ f[op.p].k # "f" \/ f[op.p].c # rs.info.c
                      THEN [out |-> <<>>, st |-> "err", walk |-> FALSE]
                    ELSE [out |-> <<E("f", arel, rs.info.m, RoundT(rs.info.t), rs.info.c, <<>>)>>, st |-> "ok", walk |-> FALSE]
  IN IF node.k = "d" /\ here.st = "ok" /\ here.walk
     THEN WalkKids(ctx, fr, lex, depth, Kids(f, phys), [out |-> here.out, st |-> "ok"])
     ELSE [out |-> here.out, st |-> here.st]

WalkKids(ctx, fr, lex, depth, ks, acc) ==
  IF ks = <<>> \/ acc.st # "ok" THEN acc
  ELSE LET r == WalkNode(ctx, fr, Append(lex, Head(ks)), depth, FALSE)
       IN WalkKids(ctx, fr, lex, depth, Tail(ks), [out |-> acc.out \o r.out, st |-> r.st])

\* parseIgnoreFile(src): src as spelled (resolved by the kernel from cwd)
IgnoreFileName == ".terraformignore"
RuleFileC == 50          \* content id of a rule file; its text travels with the case as "lines"
LoadRules(f, cwd, srcToks, lines) ==
  LET r == Res(f, IF IsAbsT(srcToks) THEN Root ELSE cwd, Append(srcToks, IgnoreFileName), FUEL, TRUE) IN
  IF r.st = "ok" /\ f[r.p].k = "f" /\ f[r.p].c = RuleFileC
  THEN ParseLines(lines)
  ELSE [st |-> "ok", rules |-> DefaultVals, flags |-> DefaultFlags]

\* opts: [ign, deref, allow]
PackRun(f, cwd, spelling, opts, lines) ==
  LET l0 == Res(f, IF IsAbsT(spelling) THEN Root ELSE cwd, spelling, FUEL, FALSE) IN
  IF l0.st # "ok" THEN [st |-> "err", out |-> <<>>]
  ELSE
  LET srcToks == IF f[l0.p].k = "l" THEN f[l0.p].tgt ELSE spelling        \* one Readlink, used as spelled
      pr == IF opts.ign THEN LoadRules(f, cwd, srcToks, lines) ELSE [st |-> "ok", rules |-> <<>>, flags |-> <<>>]
  IN IF pr.st = "panic" THEN [st |-> "panic", out |-> <<>>]
  ELSE
  LET src == AbsP(cwd, srcToks)
      ctx == [f |-> f, root |-> src, rs |-> [rules |-> pr.rules, flags |-> pr.flags], ign |-> opts.ign,
              deref |-> opts.deref,
              allow |-> opts.allow \cup { JoinClean(src, r) : r \in opts.allowrel }]      \* relative prefixes are joined to the root of *this* call
      r == WalkNode(ctx, [src |-> src, dst |-> src], src, DerefDepth, TRUE)
  IN [st |-> r.st, out |-> r.out]

-----------------------------------------------------------------------------
\* L0 predicates over an outcome (st, out, meta) of packing tree f at Src with opts

EntryNames(out) == [i \in DOMAIN out |-> out[i].name]
NameOf(e) == IF e.name # <<>> /\ Last(e.name) = "" THEN Parent(e.name) ELSE e.name   \* without the "/" of directories

\* C20: the returned metadata describes the slug
C20Bad(out, meta) ==
  (IF meta.files # EntryNames(out) THEN {"files-differ"} ELSE {})
  \cup (IF meta.size # meta.bodybytes THEN {"size-vs-body-bytes"} ELSE {})
  \cup (IF meta.size # meta.hdrsizes THEN {"size-vs-header-sizes"} ELSE {})

\* C05 (a): every file body is the content of what the archive name denotes in the tree
\* (through links only when dereferencing); (b) link entries stay inside the archive
\* root (or are allow-listed); (c) names never leave the archive root
\* a relative link entry read at its own position in the archive: the archive root is an
\* anonymous directory, so climbing above it is leaving it even if the path re-enters
\* a directory that happens to have the source directory's name
ARoot == <<"#archive-root">>
LinkInsideArchive(name, tgt) == ~IsAbsT(tgt) /\ Under(JoinClean(ARoot \o Parent(name), tgt), ARoot)
C05Bad(f, src, opts, out) ==
  { <<"data", CatS(out[i].name)>> : i \in { j \in DOMAIN out : out[j].k = "f" /\
        LET r == ResAbs(f, src \o out[j].name, TRUE) IN
        ~(r.st = "ok" /\ f[r.p].k = "f" /\ f[r.p].c = out[j].c /\ (opts.deref \/ r.p = src \o out[j].name)) } }
  \cup { <<"link", CatS(out[i].name)>> : i \in { j \in DOMAIN out : out[j].k = "l" /\
        ~( LinkInsideArchive(out[j].name, out[j].tgt)
           \/ (IsAbsT(out[j].tgt) /\ Under(JoinClean(Root, out[j].tgt), src))          \* absolute in-tree links are stored as they are (pinned by the tests)
           \/ AllowedP(opts.allow, AbsOf(src \o out[j].name, out[j].tgt)) ) } }
  \cup { <<"name", CatS(out[i].name)>> : i \in { j \in DOMAIN out : HasDotDot(out[j].name) \/ IsAbsT(out[j].name) } }

\* out-of-tree links physically under src (the main frame), with their own path not excluded
OutLinks(f, src, opts) ==
  { p \in DOMAIN f : StrictlyUnder(p, src) /\ f[p].k = "l" /\ ~ValidLinkP(src, opts.allow, p, f[p].tgt) }

\* C19: the call returns
C19Bad(st) == IF st \in {"panic", "diverge", "block", "hang", "crash"} THEN {st} ELSE {}
=============================================================================
