------------------------------ MODULE RoundTrip ------------------------------
(***************************************************************************)
(* Composition Unpack(Pack(tree, opts), empty destination) on L1, and the   *)
(* L0 statement of C02: the unpacked tree equals the source tree modulo     *)
(* ignore rules, special files, mtime rounding and link mtimes.             *)
(***************************************************************************)
EXTENDS Pack

CONSTANTS RTDst           \* where the slug is unpacked (an empty directory of the arena)

U(f) == INSTANCE UnpackOps WITH
          Alphabet <- {}, MaxLen <- 0, Emit <- FALSE, FS0 <- f, Dst <- RTDst, SP <- {}, Allow <- {},
          DEV_StrPrefix <- FALSE, DEV_DirNotCreated <- FALSE, DEV_CreateThroughLink <- FALSE,
          DEV_AbsInside <- TRUE, DEV_DirThroughLink <- FALSE, DEV_WalkRawName <- FALSE, DEV_LinkRawName <- FALSE, DEV_LinkOneSlash <- FALSE

\* L1 prediction of unpacking the slug out into RTDst of filesystem f
UnpackOf(f, out) == U(f)!Run(f, <<>>, out)

\* the tree below a directory, as relative path -> node
SubTree(f, d) == [ r \in { SubSeq(p, Len(d) + 1, Len(p)) : p \in { q \in DOMAIN f : StrictlyUnder(q, d) } } |-> f[d \o r] ]

SubTreeAbs(f, d) == [ p \in { q \in DOMAIN f : StrictlyUnder(q, d) } |-> f[p] ]

\* C02: compare source tree S (relative) with unpacked tree T (relative).
\* omitted(r) says whether the relative path r may (must) be absent: excluded by
\* the rules or a special file.  Directories that are excluded themselves but
\* needed as parents are unconstrained.
C02Diffs(S, T, excluded) ==
  LET need == { r \in DOMAIN S : S[r].k # "p" /\ ~excluded[r] } IN
  { <<"missing", CatS(r)>> : r \in need \ DOMAIN T }
  \cup { <<"extra", CatS(r)>> : r \in { x \in DOMAIN T : x \notin DOMAIN S \/ S[x].k = "p"
                                         \/ (excluded[x] /\ ~(S[x].k = "d" /\ \E y \in need : ProperPrefixP(x, y))) } }
  \cup { <<"differs", CatS(r)>> : r \in { x \in need \cap DOMAIN T :
            \/ S[x].k # T[x].k
            \/ (S[x].k = "f" /\ (S[x].c # T[x].c \/ S[x].m # T[x].m \/ RoundT(S[x].t) # T[x].t))
            \/ (S[x].k = "d" /\ (S[x].m # T[x].m \/ RoundT(S[x].t) # T[x].t))
            \/ (S[x].k = "l" /\ S[x].tgt # T[x].tgt) } }
=============================================================================
