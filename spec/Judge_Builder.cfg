SPECIFICATION Spec
CONSTANTS
  NONE = "none"
  Pkgs = {"P1", "P2", "P3"}
  Subs <- MCSubs
  Finders = {"F1"}
  RegPkgs = {"R1", "R2"}
  Vers = {1, 2, 3}
  AllowedSets <- MCAllowedQ
  Callers = {"c1"}
  Adds <- MCAdds
  Contents = {1}
  MetaFlags = {FALSE}
  DepFlags = {FALSE}
  LocalRels <- MCLocalRelsQ
  MaxEdges = 2
  MaxDeps = 2
  MaxAdds = 0
  MaxFaults = 0
  Faults = {}
  DiagKinds = {"none"}
  Concurrent = FALSE
  Emit = FALSE
CHECK_DEADLOCK FALSE
