------------------------------- MODULE Prepare -------------------------------
(***************************************************************************)
(* Package preparation of sourcebundle.Builder.ensureRemotePackage:         *)
(* load the package's own ignore rules, walk the fetched tree removing what *)
(* they exclude *during* the lexical walk, check that every remaining path  *)
(* physically resolves to a regular file or directory inside the package,   *)
(* hash the tree (every non-directory is opened), place the directory under *)
(* its hash name.  C10 (sanitised package directories) and the bundle half  *)
(* of C03 (what is kept is decided by the rule language on package paths).  *)
(***************************************************************************)
EXTENDS Pack

CONSTANTS
  Target,                      \* the bundle directory under construction (clean absolute path)
  DEV_PrepOwnPathDirRemoved,   \* a directory excluded by its own path is removed and the walk continues into it (fails)
  DEV_PrepPruneNonDominating,  \* a directory excluded as "dir/" is removed even when a later negation re-includes content
  DEV_PrepAbsLinkAccepted,     \* an absolute link target that resolves inside the work directory is accepted
  DEV_PrepReenterAccepted      \* a relative target that climbs above the package root and re-enters it by name is accepted

Work == Append(Target, "w")         \* stands for the .tmp-* work directory
Final == Append(Target, "h")        \* stands for the hash-named final directory

\* filepath.EvalSymlinks of a clean absolute path
Eval(f, p) == ResAbs(f, p, TRUE)

\* the walk function on one node; returns [f, r] with r in nil / skip / err, marks = excluded directories kept
PrepFn(f, rs, rel, marks) ==
  LET abs == Work \o rel
      node == f[abs]
      s == PChars(rel)
      x1 == Excludes(rs, s)
  IN IF x1.ex THEN
        IF node.k = "d" /\ ~DEV_PrepOwnPathDirRemoved THEN [f |-> f, r |-> "nil", marks |-> Append(marks, abs)]
        ELSE [f |-> RemoveAll(f, abs).fs, r |-> "nil", marks |-> marks]
     ELSE LET x2 == IF node.k = "d" THEN Excludes(rs, s \o <<"/">>) ELSE [ex |-> FALSE, dom |-> FALSE] IN
     IF x2.ex THEN
        IF DEV_PrepPruneNonDominating \/ x2.dom THEN [f |-> RemoveAll(f, abs).fs, r |-> "skip", marks |-> marks]
        ELSE [f |-> f, r |-> "nil", marks |-> Append(marks, abs)]
     ELSE IF node.k = "l" /\ IsAbsT(node.tgt) /\ ~DEV_PrepAbsLinkAccepted THEN [f |-> f, r |-> "err", marks |-> marks]
     ELSE IF node.k = "l" /\ ~IsAbsT(node.tgt) /\ ~DEV_PrepReenterAccepted
             /\ ~Under(JoinClean(<<"#root">> \o Parent(rel), node.tgt), <<"#root">>) THEN [f |-> f, r |-> "err", marks |-> marks]
     ELSE LET real == Eval(f, abs) IN
       IF real.st # "ok" THEN [f |-> f, r |-> "err", marks |-> marks]
       ELSE IF ~Under(real.p, Work) THEN [f |-> f, r |-> "err", marks |-> marks]
       ELSE IF f[real.p].k \notin {"f", "d"} THEN [f |-> f, r |-> "err", marks |-> marks]
       ELSE [f |-> f, r |-> "nil", marks |-> marks]

RECURSIVE PrepWalk(_,_,_,_)
RECURSIVE PrepKids(_,_,_,_,_)
\* filepath.Walk: the names of a directory are read before the function runs on it
PrepWalk(f, rs, rel, marks) ==
  LET abs == Work \o rel IN
  IF rel = <<>> THEN PrepKids(f, rs, rel, Kids(f, abs), marks)
  ELSE IF f[abs].k # "d" THEN PrepFn(f, rs, rel, marks)
  ELSE LET ks == Kids(f, abs)
           r == PrepFn(f, rs, rel, marks) IN
       IF r.r # "nil" THEN [f |-> r.f, r |-> IF r.r = "skip" THEN "nil" ELSE r.r, marks |-> r.marks]
       ELSE PrepKids(r.f, rs, rel, ks, r.marks)
PrepKids(f, rs, rel, ks, marks) ==
  IF ks = <<>> THEN [f |-> f, r |-> "nil", marks |-> marks]
  ELSE LET child == Append(rel, Head(ks)) IN
       IF (Work \o child) \notin DOMAIN f THEN [f |-> f, r |-> "err", marks |-> marks]      \* lstat fails: removed under our feet
       ELSE LET r == PrepWalk(f, rs, child, marks) IN
            IF r.r = "err" THEN r ELSE PrepKids(r.f, rs, rel, Tail(ks), r.marks)

\* emptied excluded directories are removed after the walk, deepest first (os.Remove fails on non-empty ones)
RECURSIVE Cleanup(_,_)
Cleanup(f, marks) ==
  IF marks = <<>> THEN f
  ELSE LET d == marks[Len(marks)] IN
       Cleanup(IF d \in DOMAIN f /\ KidNames(f, d) = {} THEN DelNode(f, d) ELSE f, SubSeq(marks, 1, Len(marks) - 1))

\* dirhash.HashDir: every non-directory below the work directory is opened and read
HashOf(f) ==
  LET nd == { p \in DOMAIN f : StrictlyUnder(p, Work) /\ f[p].k # "d" }
      res(p) == ResAbs(f, p, TRUE)
  IN IF \E p \in nd : res(p).st # "ok" \/ f[res(p).p].k # "f" THEN [ok |-> FALSE, h |-> {}]
     ELSE [ok |-> TRUE, h |-> { <<SubSeq(p, Len(Work) + 1, Len(p)), f[res(p).p].c>> : p \in nd }]

\* rename the work directory to the hash-named one
Renamed(f) == [ p \in { IF Under(q, Work) THEN Final \o SubSeq(q, Len(Work) + 1, Len(q)) ELSE q : q \in DOMAIN f } |->
                  IF Under(p, Final) THEN f[Work \o SubSeq(p, Len(Final) + 1, Len(p))] ELSE f[p] ]

\* ensureRemotePackage on the fetched tree at Work; lines = the package's rule file (or <<>>)
PrepRun(f0, lines, hasRuleFile) ==
  LET pr == IF hasRuleFile THEN ParseLines(lines) ELSE [st |-> "ok", rules |-> DefaultVals, flags |-> DefaultFlags] IN
  IF pr.st = "panic" THEN [st |-> "panic", fs |-> f0]
  ELSE LET rs == [rules |-> pr.rules, flags |-> pr.flags]
           w == PrepWalk(f0, rs, <<>>, <<>>) IN
  IF w.r = "err" THEN [st |-> "fail", fs |-> w.f]
  ELSE LET f1 == Cleanup(w.f, w.marks)
           h == HashOf(f1) IN
  IF ~h.ok THEN [st |-> "fail", fs |-> f1]
  ELSE [st |-> "ok", fs |-> Renamed(f1), hash |-> h.h]

-----------------------------------------------------------------------------
\* L0

\* C10: a package directory of a successful bundle
Unsanitary(f, d) ==
  { p \in DOMAIN f : StrictlyUnder(p, d) /\
      ~( f[p].k \in {"f", "d"}
         \/ (f[p].k = "l" /\ LET r == ResAbs(f, p, TRUE) IN r.st = "ok" /\ Under(r.p, d) /\ f[r.p].k \in {"f", "d"}) ) }

\* what the rule language says must go / must stay (own-path semantics; names are character sequences via NameChars)
RelChars(rel) == [i \in DOMAIN rel |-> NameChars[rel[i]]]
PkgExcluded(rl, rel, isDir) == SpecExcluded(rl, RelChars(rel), isDir)
\* fetched paths (relative to the package root) that are not directories
FetchedFiles(f0) == { SubSeq(p, Len(Work) + 1, Len(p)) : p \in { q \in DOMAIN f0 : StrictlyUnder(q, Work) /\ f0[q].k # "d" } }
KeptFiles(f, d) == { SubSeq(p, Len(d) + 1, Len(p)) : p \in { q \in DOMAIN f : StrictlyUnder(q, d) /\ f[q].k # "d" } }
KeptDirs(f, d) == { SubSeq(p, Len(d) + 1, Len(p)) : p \in { q \in DOMAIN f : StrictlyUnder(q, d) /\ f[q].k = "d" } }

\* a fetched tree that must make the build fail: after removing what the rules exclude it still holds
\* a special file, a dangling link or a link leaving the package
Surv(f0, rl, p) == ~PkgExcluded(rl, SubSeq(p, Len(Work) + 1, Len(p)), f0[p].k = "d")
\* the fetched tree after removing what the rule language excludes (own-path semantics):
\* surviving non-directories, and every directory that survives itself or has a surviving descendant
L0Tree(f0, rl) ==
  LET keepND == { p \in DOMAIN f0 : StrictlyUnder(p, Work) /\ f0[p].k # "d" /\ Surv(f0, rl, p) }
      keepD == { p \in DOMAIN f0 : StrictlyUnder(p, Work) /\ f0[p].k = "d" /\ (Surv(f0, rl, p) \/ \E q \in keepND : ProperPrefixP(p, q)) }
  IN [ p \in { q \in DOMAIN f0 : ~StrictlyUnder(q, Work) } \cup keepND \cup keepD |-> f0[p] ]
MustFail(f0, rl) ==
  LET t == L0Tree(f0, rl) IN
  \E p \in DOMAIN t : StrictlyUnder(p, Work)
       /\ ( t[p].k = "p"
            \/ (t[p].k = "l" /\ LET r == ResAbs(t, p, TRUE) IN r.st # "ok" \/ ~Under(r.p, Work) \/ t[r.p].k = "p") )
\* every surviving non-directory can be read as a file (links to directories legitimately fail the checksum step)
HashableL0(f0, rl) ==
  LET t == L0Tree(f0, rl) IN
  \A p \in DOMAIN t : (StrictlyUnder(p, Work) /\ t[p].k # "d") =>
       LET r == ResAbs(t, p, TRUE) IN r.st = "ok" /\ t[r.p].k = "f"
NoLinks(f0) == \A p \in DOMAIN f0 : StrictlyUnder(p, Work) => f0[p].k # "l"

\* Known-finding class for C10: the only unsanitary paths are links whose target is an absolute
\* path into the temporary work directory of the same package (the only absolute spelling
\* a fetcher can produce for an in-package target): valid while being checked, dangling after
\* the directory is renamed to its hash name
KF10Class(f0, rl, st, f) ==
  LET bad == Unsanitary(f, Final) IN
  IF st = "ok" /\ bad # {} /\ \A p \in bad : f[p].k = "l" /\ IsAbsT(f[p].tgt) /\ Under(JoinClean(Root, f[p].tgt), Work)
  THEN "KF-C10-absolute-link-into-work-directory" ELSE ""

PrepVerdict(f0, rl, st, f, outsideChanged, tmpLeft) ==
  LET w10 == (IF st = "ok" THEN { <<"unsanitary", CatS(p)>> : p \in Unsanitary(f, Final) } ELSE {})
             \cup (IF st = "ok" THEN { <<"excluded-file-kept", CatS(r)>> : r \in { x \in KeptFiles(f, Final) : PkgExcluded(rl, x, FALSE) } } ELSE {})
             \cup (IF st = "ok" THEN { <<"excluded-empty-directory-kept", CatS(r)>> : r \in { x \in KeptDirs(f, Final) : PkgExcluded(rl, x, TRUE) /\ KidNames(f, Final \o x) = {} } } ELSE {})
             \* a package that must be rejected is rejected by an error that is returned: neither accepted nor a build that never returns
             \cup (IF st # "fail" /\ MustFail(f0, rl) THEN { <<"build-should-have-failed", st>> } ELSE {})
             \cup (IF tmpLeft /\ st = "ok" THEN { <<"temporary-directory-left", "">> } ELSE {})
             \cup { <<"outside-touched", q>> : q \in outsideChanged }
      \* C03, bundle half: a file whose own path is not excluded is kept (when the package is accepted at all)
      w03 == IF st = "ok" THEN { <<"lost", CatS(r)>> : r \in { x \in FetchedFiles(f0) : ~PkgExcluded(rl, x, FALSE) } \ KeptFiles(f, Final) }
                               \cup { <<"kept-although-excluded", CatS(r)>> : r \in { x \in KeptFiles(f, Final) : PkgExcluded(rl, x, FALSE) } }
             ELSE IF st = "fail" /\ ~MustFail(f0, rl) /\ HashableL0(f0, rl) /\ NoLinks(f0) THEN { <<"package-rejected-because-of-its-rules", "">> } ELSE {}
  IN [c10 |-> w10 = {}, w10 |-> { d[1] \o ":" \o d[2] : d \in w10 }, c03 |-> w03 = {}, w03 |-> { d[1] \o ":" \o d[2] : d \in w03 },
      c19 |-> st \notin {"panic", "hang"}, w19 |-> IF st \in {"panic", "hang"} THEN {st} ELSE {}]
=============================================================================
