----------------------------- MODULE MC_Builder -----------------------------
EXTENDS Builder
MCSubs == { <<>>, <<"m">> }
MCAllowed == { {1, 2, 3}, {2}, {1, 3}, {2, 3} }
MCAllowedQ == { {1, 2}, {2} }
MCLocalRels == { [ups |-> 0, names |-> <<"m">>], [ups |-> 1, names |-> <<>>], [ups |-> 2, names |-> <<>>] }
MCLocalRelsQ == { [ups |-> 0, names |-> <<"m">>], [ups |-> 1, names |-> <<>>] }
\* what callers may add
MCAdds == { Art(Rem("P1", <<>>), "F1"), Art(Rem("P2", <<"m">>), "F1"), Art(Reg("R1", <<>>, {1, 2}), "F1"), Art(Reg("R1", <<"m">>, {2}), "F1") }
MCAdds3 == MCAdds \cup { Art(Rem("P1", <<>>), "F2"), Art(Rem("P3", <<>>), "F1"), Art(Reg("R2", <<>>, {1, 2, 3}), "F2") }
MCSubs1 == { <<>> }
\* several finders at one location: a relative self-reference ("./") handed to another finder, a registry hop with another finder
MCLocalRelsSelf == { [ups |-> 0, names |-> <<>>], [ups |-> 0, names |-> <<"m">>] }
MCAllowed1 == { {1} }
MCAddsF == { Art(Rem("P1", <<>>), "F1"), Art(Rem("P1", <<>>), "F2"), Art(Reg("R1", <<>>, {1}), "F1") }
MCLocalRels0 == { [ups |-> 0, names |-> <<"m">>] }      \* relative dependencies that cannot fail to resolve
\* version selection universe: several requests against one registry package
MCAddsV == { Art(Reg("R1", <<>>, al), "F1") : al \in MCAllowed } \cup { Art(Reg("R1", <<"m">>, {2}), "F1") }
\* one registry package version reached through different sub-paths, in either order
MCAddsG == { Art(Reg("R1", <<>>, {1, 2}), "F1"), Art(Reg("R1", <<"m">>, {2}), "F1"), Art(Reg("R1", <<"m">>, {1, 2}), "F1") }
\* one artifact reporting the same registry source more than once with different allowed sets
MCAllowedD == { {1}, {1, 2}, {2} }
MCAddsP == { Art(Rem("P1", <<>>), "F1") }
\* coalescing universe: remote adds only
MCAddsR == { Art(Rem("P1", <<>>), "F1"), Art(Rem("P2", <<>>), "F1"), Art(Rem("P2", <<"m">>), "F1") }
=============================================================================
