------------------------------- MODULE Unpack -------------------------------
(***************************************************************************)
(* The Unpack state machine: variables and actions over the operators of    *)
(* UnpackOps (the algorithm as coded, L1, and the property predicates, L0). *)
(***************************************************************************)
EXTENDS UnpackOps

-----------------------------------------------------------------------------
VARIABLES fs, dirs, st, hist
vars == <<fs, dirs, st, hist>>

Init == fs = FS0 /\ dirs = <<>> /\ st = "run" /\ hist = <<>>

Case(h, s, why, f) ==
  [fam |-> "unpack", hist |-> h, st |-> s, why |-> why, fs |-> Snapshot(f),
   v |-> Verdict(h, s, f, [st |-> s, why |-> why, fs |-> f])]

Entry(e) ==
  /\ st = "run" /\ Len(hist) < MaxLen
  /\ LET r == Proc(fs, dirs, e) IN
       /\ fs' = r.fs /\ dirs' = r.dirs /\ st' = r.st
       /\ hist' = Append(hist, e)
       \* one record per generated transition (before VIEW de-duplication): the archive that ends with
       \* this entry.  If the entry is accepted the archive's outcome includes the deferred restore.
       /\ Emit => IF r.st # "run" THEN PrintT("@@" \o ToJson(Case(hist', r.st, r.why, r.fs)))
                  ELSE LET fin == RestoreDirs(r.fs, r.dirs) IN PrintT("@@" \o ToJson(Case(hist', fin.st, "end", fin.fs)))

Finish ==
  /\ st = "run"
  /\ LET r == RestoreDirs(fs, dirs) IN
       /\ fs' = r.fs /\ st' = r.st /\ dirs' = <<>>
       /\ (Emit /\ hist = <<>>) => PrintT("@@" \o ToJson(Case(hist, r.st, "end", r.fs)))     \* the empty archive
  /\ UNCHANGED hist

Next == (\E e \in Alphabet : Entry(e)) \/ Finish
Spec == Init /\ [][Next]_vars

View == <<fs, dirs, st, Len(hist)>>

\* design-level invariants (the L1 model against L0); with DEV_* = TRUE they fail
\* exactly on the recorded defect candidates, with DEV_* = FALSE they must hold
C01_OutsideUnchanged == OutsideChanged(fs) = {}
C04_LinksInside == Escaping(fs) \cup AbsLinks(fs) = {}
C15_MatchesRefInterp == (st = "ok" /\ Consistent(hist)) => C15Diffs(fs, hist) = {}
C15_Accepts == (st \in {"err", "illegal"} /\ Consistent(hist)) => FALSE
C12_DirsOnlyAtEnd == st = "run" => \A i \in DOMAIN dirs : TRUE
TypeOK == st \in {"run", "ok", "err", "illegal"}
=============================================================================
