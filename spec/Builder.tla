------------------------------- MODULE Builder -------------------------------
(***************************************************************************)
(* sourcebundle.Builder (builder.go) as a state machine.                    *)
(*                                                                         *)
(* L1: one action per critical section / callback boundary of the code:     *)
(*   AddBegin   unlocked read of targetDir (refuse = the documented panic)  *)
(*   AddPush    short lock: early "already analysed" test or push           *)
(*   DrainLock  resolvePending takes the mutex                              *)
(*   LoopReg / VersReply / SrcReply     registry phase (LIFO queue)         *)
(*   LoopRem / FetchReply               remote phase, incl. analysis        *)
(*   LoopPhase  phase switch, and DrainUnlock (poison on error)             *)
(*   Close      flag under lock, manifest, re-open                          *)
(* The environment (what finders report, what the registry lists and        *)
(* returns, what the fetcher delivers) is chosen lazily and remembered.     *)
(*                                                                         *)
(* L0: RefSelect, RefClosure, the once-only counters, event bracketing,     *)
(* poisoning, manifest-as-a-function - see the Verdict operator.            *)
(***************************************************************************)
EXTENDS Naturals, Sequences, FiniteSets, TLC, Json

CONSTANTS NONE, Pkgs, Subs, Finders, RegPkgs, Vers, AllowedSets, Callers, Adds,
          MetaFlags,         \* whether a fetch may come with package metadata
          DepFlags,          \* deprecation flags the registry may attach to a version
          Contents,          \* content ids a fetch may deliver (equal ids coalesce into one directory)
          LocalRels,         \* relative paths a finder may report: [ups, names]
          MaxEdges, MaxDeps, MaxAdds, MaxFaults, Faults, DiagKinds, Concurrent, Emit

Rem(p, s) == [k |-> "rem", pkg |-> p, sub |-> s]
Reg(r, s, al) == [k |-> "reg", rpkg |-> r, sub |-> s, allowed |-> al]
Loc(rel) == [k |-> "loc", rel |-> rel]
RemSrcs == { Rem(p, s) : p \in Pkgs, s \in Subs }
RegSrcs == { Reg(r, s, al) : r \in RegPkgs, s \in Subs, al \in AllowedSets }
LocSrcs == { Loc(r) : r \in LocalRels }
Art(src, f) == [src |-> src, f |-> f]
DepTargets == { Art(s, f) : s \in RemSrcs \cup RegSrcs \cup LocSrcs, f \in Finders }

SeqsUpTo(S, n) == UNION { [1..k -> S] : k \in 0..n }
Max(S) == CHOOSE x \in S : \A y \in S : y <= x
Range(s) == { s[i] : i \in DOMAIN s }

\* L0: sub-path algebra (as Addr.tla RefResolve, on a remote base)
PopN(stack, n) == SubSeq(stack, 1, Len(stack) - n)
ResolveLocal(sub, rel) == IF rel.ups > Len(sub) THEN [ok |-> FALSE, sub |-> sub]
                          ELSE [ok |-> TRUE, sub |-> PopN(sub, rel.ups) \o rel.names]
\* L0: version selection
RefSelect(offered, allowed) ==     \* offered: sequence of [v, dep]
  LET ok == { x.v : x \in Range(offered) } \cap allowed IN
  IF ok = {} THEN 0 ELSE Max(ok)

VARIABLES
  pendRem, pendReg, analyzed, pkgDir, pkgMeta, resolved, deprec, vcache, poisoned, closed, mu,
  pc, cur, diagsErr, phase, todo,      \* per caller
  wDeps, wVers, wSrc, wFetch, edges, faults,   \* lazy world
  nFetch, nVers, nSrc, nAn,            \* call counters (state, so that VIEW keeps them)
  events, calls, addHist, results, sched

vars == <<pendRem, pendReg, analyzed, pkgDir, pkgMeta, resolved, deprec, vcache, poisoned, closed, mu,
          pc, cur, diagsErr, phase, todo, wDeps, wVers, wSrc, wFetch, edges, faults,
          nFetch, nVers, nSrc, nAn, events, calls, addHist, results, sched>>

Init ==
  /\ pendRem = <<>> /\ pendReg = <<>> /\ analyzed = {} /\ pkgDir = <<>> /\ pkgMeta = <<>> /\ resolved = <<>>
  /\ deprec = <<>> /\ vcache = <<>> /\ poisoned = FALSE /\ closed = FALSE /\ mu = NONE
  /\ pc = [c \in Callers |-> "idle"] /\ cur = [c \in Callers |-> NONE]
  /\ diagsErr = [c \in Callers |-> FALSE] /\ phase = [c \in Callers |-> "reg"]
  /\ todo = [c \in Callers |-> MaxAdds]
  /\ wDeps = <<>> /\ wVers = <<>> /\ wSrc = <<>> /\ wFetch = <<>> /\ edges = 0 /\ faults = 0
  /\ nFetch = [p \in Pkgs |-> 0] /\ nVers = [r \in RegPkgs |-> 0] /\ nSrc = <<>> /\ nAn = <<>>
  /\ events = <<>> /\ calls = <<>> /\ addHist = <<>> /\ results = <<>> /\ sched = <<>>

UNCH_cnt == UNCHANGED <<nFetch, nVers, nSrc, nAn>>
UNCH_world == UNCHANGED <<wDeps, wVers, wSrc, wFetch, edges>>
UNCH_tabs == UNCHANGED <<analyzed, pkgDir, pkgMeta, resolved, deprec, vcache>>
Sched(c, a) == sched' = Append(sched, <<c, a>>)

Bump(f, k) == IF k \in DOMAIN f THEN [f EXCEPT ![k] = @ + 1] ELSE (k :> 1) @@ f

\* ---- Add entry: unlocked read of targetDir, then locked push ----
AddBegin(c, a) ==
  /\ pc[c] = "idle" /\ todo[c] > 0 /\ ~closed
  /\ (~Concurrent => \A d \in Callers : pc[d] = "idle")
  /\ IF poisoned
     THEN /\ pc' = pc /\ cur' = cur
          /\ results' = Append(results, [c |-> c, add |-> a, refused |-> TRUE, err |-> FALSE])
     ELSE /\ pc' = [pc EXCEPT ![c] = "push"] /\ cur' = [cur EXCEPT ![c] = a] /\ results' = results
  /\ todo' = [todo EXCEPT ![c] = @ - 1]
  /\ addHist' = Append(addHist, [c |-> c, add |-> a])
  /\ Sched(c, "begin")
  /\ UNCHANGED <<pendRem, pendReg, poisoned, closed, mu, diagsErr, phase, events, calls, faults>>
  /\ UNCH_tabs /\ UNCH_world /\ UNCH_cnt

AddPush(c) ==
  /\ pc[c] = "push" /\ mu = NONE
  /\ LET a == cur[c] IN
     IF a.src.k = "rem" THEN
        IF a \in analyzed
        THEN /\ pc' = [pc EXCEPT ![c] = "idle"] /\ UNCHANGED <<pendRem, pendReg>>
             /\ results' = Append(results, [c |-> c, add |-> a, refused |-> FALSE, err |-> FALSE])
        ELSE pendRem' = Append(pendRem, a) /\ pc' = [pc EXCEPT ![c] = "wantlock"] /\ UNCHANGED <<pendReg, results>>
     ELSE pendReg' = Append(pendReg, a) /\ pc' = [pc EXCEPT ![c] = "wantlock"] /\ UNCHANGED <<pendRem, results>>
  /\ Sched(c, "push")
  /\ UNCHANGED <<poisoned, closed, mu, cur, diagsErr, phase, todo, events, calls, addHist, faults>>
  /\ UNCH_tabs /\ UNCH_world /\ UNCH_cnt

DrainLock(c) ==
  /\ pc[c] = "wantlock" /\ mu = NONE
  /\ mu' = c /\ pc' = [pc EXCEPT ![c] = "loop"] /\ phase' = [phase EXCEPT ![c] = "reg"]
  /\ diagsErr' = [diagsErr EXCEPT ![c] = FALSE]
  /\ Sched(c, "drain")
  /\ UNCHANGED <<pendRem, pendReg, poisoned, closed, cur, todo, events, calls, addHist, results, faults>>
  /\ UNCH_tabs /\ UNCH_world /\ UNCH_cnt

\* ---- the drain loop ----
JoinSub(a, b) == a \o b

\* continue a registry artifact once the version list is known (pure)
RegCont(a, offered) ==
  LET v == RefSelect(offered, a.src.allowed) IN
  IF v = 0 THEN [t |-> "nomatch"]
  ELSE LET key == <<a.src.rpkg, v>> IN
       IF key \in DOMAIN resolved
       THEN [t |-> "push", art |-> Art(Rem(resolved[key].pkg, JoinSub(resolved[key].sub, a.src.sub)), a.f), v |-> v]
       ELSE [t |-> "needsrc", v |-> v]

VList(offered) == [i \in DOMAIN offered |-> offered[i].v]

ApplyRegCont(c, a, rc, evs, cls) ==
  /\ events' = events \o evs \o (IF rc.t = "push" THEN << <<"SrcAlready", a.src.rpkg, rc.v>> >>
                                 ELSE IF rc.t = "needsrc" THEN << <<"SrcStart", a.src.rpkg, rc.v>> >> ELSE <<>>)
  /\ calls' = calls \o cls
  /\ diagsErr' = IF rc.t = "nomatch" THEN [diagsErr EXCEPT ![c] = TRUE] ELSE diagsErr
  /\ pendRem' = IF rc.t = "push" THEN Append(pendRem, rc.art) ELSE pendRem
  /\ pc' = [pc EXCEPT ![c] = IF rc.t = "needsrc" THEN "rs" ELSE "loop"]
  /\ cur' = [cur EXCEPT ![c] = IF rc.t = "needsrc" THEN [a |-> a, v |-> rc.v] ELSE cur[c]]

LoopReg(c) ==   \* pop a registry artifact (LIFO)
  /\ pc[c] = "loop" /\ mu = c /\ phase[c] = "reg" /\ pendReg # <<>>
  /\ LET a == pendReg[Len(pendReg)] IN
     /\ pendReg' = SubSeq(pendReg, 1, Len(pendReg) - 1)
     /\ IF a.src.rpkg \in DOMAIN vcache
        THEN ApplyRegCont(c, a, RegCont(a, vcache[a.src.rpkg]), << <<"VersAlready", a.src.rpkg>> >>, <<>>)
        ELSE /\ events' = Append(events, <<"VersStart", a.src.rpkg>>)
             /\ pc' = [pc EXCEPT ![c] = "rv"] /\ cur' = [cur EXCEPT ![c] = a]
             /\ UNCHANGED <<pendRem, diagsErr, calls>>
  /\ UNCHANGED <<resolved, deprec, vcache, wVers, wSrc, analyzed, pkgDir, pkgMeta, poisoned, closed, mu, phase, todo,
                 wDeps, wFetch, edges, faults, addHist, results, sched>>
  /\ UNCH_cnt

VersLists == { s \in SeqsUpTo([v : Vers, dep : DepFlags], 2) : \A i, j \in DOMAIN s : i # j => s[i].v # s[j].v }

VersReply(c) ==
  /\ pc[c] = "rv" /\ mu = c
  /\ LET a == cur[c]  r == a.src.rpkg IN
     \/ /\ "vers" \in Faults /\ faults < MaxFaults /\ faults' = faults + 1
        /\ events' = Append(events, <<"VersFailure", r>>)
        /\ calls' = Append(calls, <<"Versions", r, "fail">>)
        /\ diagsErr' = [diagsErr EXCEPT ![c] = TRUE] /\ pc' = [pc EXCEPT ![c] = "loop"] /\ cur' = cur
        /\ nVers' = Bump(nVers, r)
        /\ UNCHANGED <<pendRem, vcache, wVers>>
     \/ \E lst \in (IF r \in DOMAIN wVers THEN {wVers[r]} ELSE VersLists) :
        /\ wVers' = (r :> lst) @@ wVers
        /\ vcache' = (r :> lst) @@ vcache
        /\ nVers' = Bump(nVers, r)
        /\ faults' = faults
        /\ ApplyRegCont(c, a, RegCont(a, lst), << <<"VersSuccess", r>> >>, << <<"Versions", r, "ok">> >>)
  /\ UNCHANGED <<pendReg, resolved, deprec, wSrc, analyzed, pkgDir, pkgMeta, poisoned, closed, mu, phase, todo,
                 wDeps, wFetch, edges, addHist, results, sched, nFetch, nSrc, nAn>>

DepOf(r, v) == LET x == CHOOSE y \in Range(vcache[r]) : y.v = v IN x.dep

SrcReply(c) ==
  /\ pc[c] = "rs" /\ mu = c
  /\ LET a == cur[c].a  v == cur[c].v  r == a.src.rpkg IN
     \/ /\ "src" \in Faults /\ faults < MaxFaults /\ faults' = faults + 1
        /\ events' = Append(events, <<"SrcFailure", r, v>>)
        /\ calls' = Append(calls, <<"Source", r, v, "fail">>)
        /\ diagsErr' = [diagsErr EXCEPT ![c] = TRUE]
        /\ nSrc' = Bump(nSrc, <<r, v>>)
        /\ UNCHANGED <<pendRem, resolved, deprec, wSrc>>
     \/ \E s \in (IF <<r, v>> \in DOMAIN wSrc THEN {wSrc[<<r, v>>]} ELSE RemSrcs) :
        /\ wSrc' = (<<r, v>> :> s) @@ wSrc
        /\ resolved' = (<<r, v>> :> s) @@ resolved
        /\ deprec' = (<<r, v>> :> DepOf(r, v)) @@ deprec
        /\ nSrc' = Bump(nSrc, <<r, v>>)
        /\ faults' = faults
        /\ events' = Append(events, <<"SrcSuccess", r, v>>)
        /\ calls' = Append(calls, <<"Source", r, v, "ok">>)
        /\ pendRem' = Append(pendRem, Art(Rem(s.pkg, JoinSub(s.sub, a.src.sub)), a.f))
        /\ diagsErr' = diagsErr
  /\ pc' = [pc EXCEPT ![c] = "loop"] /\ cur' = cur
  /\ UNCHANGED <<pendReg, analyzed, pkgDir, pkgMeta, vcache, poisoned, closed, mu, phase, todo, wDeps, wVers, wFetch,
                 edges, addHist, results, sched, nFetch, nVers, nAn>>

LoopPhase(c) ==
  /\ pc[c] = "loop" /\ mu = c
  /\ \/ /\ phase[c] = "reg" /\ pendReg = <<>> /\ phase' = [phase EXCEPT ![c] = "rem"]
        /\ UNCHANGED <<pc, mu, poisoned, results, sched>>
     \/ /\ phase[c] = "rem" /\ pendRem = <<>> /\ pendReg # <<>> /\ phase' = [phase EXCEPT ![c] = "reg"]
        /\ UNCHANGED <<pc, mu, poisoned, results, sched>>
     \/ /\ phase[c] = "rem" /\ pendRem = <<>> /\ pendReg = <<>>      \* DrainUnlock
        /\ mu' = NONE /\ pc' = [pc EXCEPT ![c] = "idle"] /\ phase' = phase
        /\ poisoned' = (poisoned \/ diagsErr[c])
        /\ results' = Append(results, [c |-> c, add |-> NONE, refused |-> FALSE, err |-> diagsErr[c]])
        /\ Sched(c, "unlock")
  /\ UNCHANGED <<pendRem, pendReg, closed, cur, diagsErr, todo, events, calls, addHist, faults>>
  /\ UNCH_tabs /\ UNCH_world /\ UNCH_cnt

\* what the analysis of artifact a reports: [deps, diag]
AnChoices(a) ==
  IF a \in DOMAIN wDeps THEN {wDeps[a]}
  ELSE { [deps |-> s, diag |-> d] : s \in { x \in SeqsUpTo(DepTargets, MaxDeps) : edges + Len(x) <= MaxEdges }, d \in DiagKinds }

\* the pushes and the error flag caused by one reported dependency list
DepPushRem(a, deps) ==
  LET f(i) == LET d == deps[i] IN
              IF d.src.k = "rem" THEN << d >>
              ELSE IF d.src.k = "loc" THEN
                   LET r == ResolveLocal(a.src.sub, d.src.rel) IN
                   IF r.ok THEN << Art(Rem(a.src.pkg, r.sub), d.f) >> ELSE <<>>
              ELSE <<>>
      RECURSIVE Cat(_)
      Cat(i) == IF i > Len(deps) THEN <<>> ELSE f(i) \o Cat(i + 1)
  IN Cat(1)
DepPushReg(deps) == SelectSeq(deps, LAMBDA d : d.src.k = "reg")
DepLocalErr(a, deps) == \E i \in DOMAIN deps : deps[i].src.k = "loc" /\ ~ResolveLocal(a.src.sub, deps[i].src.rel).ok

\* pops the artifact (top of pendRem) and analyses it if needed
PopAndAnalyze(c, a, evs, cls) ==
  IF a \in analyzed
  THEN /\ pendRem' = SubSeq(pendRem, 1, Len(pendRem) - 1)
       /\ events' = events \o evs /\ calls' = calls \o cls
       /\ UNCHANGED <<analyzed, wDeps, edges, pendReg, diagsErr, nAn>>
  ELSE \E an \in AnChoices(a) :
       /\ wDeps' = (a :> an) @@ wDeps
       /\ edges' = IF a \in DOMAIN wDeps THEN edges ELSE edges + Len(an.deps)
       /\ analyzed' = analyzed \cup {a}
       /\ nAn' = Bump(nAn, a)
       /\ pendRem' = SubSeq(pendRem, 1, Len(pendRem) - 1) \o DepPushRem(a, an.deps)
       /\ pendReg' = pendReg \o DepPushReg(an.deps)
       /\ events' = events \o evs \o (IF an.diag = "none" THEN <<>> ELSE << <<"Diag", a.src.pkg, an.diag>> >>)
       /\ calls' = calls \o cls \o << <<"Analyze", a.src.pkg, a.src.sub, a.f>> >>
       /\ diagsErr' = [diagsErr EXCEPT ![c] = @ \/ an.diag = "err" \/ DepLocalErr(a, an.deps)]

LoopRem(c) ==
  /\ pc[c] = "loop" /\ mu = c /\ phase[c] = "rem" /\ pendRem # <<>>
  /\ LET a == pendRem[Len(pendRem)] IN
     IF a.src.pkg \in DOMAIN pkgDir
     THEN /\ PopAndAnalyze(c, a, << <<"FetchAlready", a.src.pkg>> >>, <<>>)
          /\ pc' = pc /\ cur' = cur
     ELSE /\ events' = Append(events, <<"FetchStart", a.src.pkg>>)
          /\ pc' = [pc EXCEPT ![c] = "rm"] /\ cur' = [cur EXCEPT ![c] = a]
          /\ UNCHANGED <<pendRem, analyzed, wDeps, edges, pendReg, diagsErr, calls, nAn>>
  /\ UNCHANGED <<pkgDir, pkgMeta, resolved, deprec, vcache, poisoned, closed, mu, phase, todo, wVers, wSrc, wFetch,
                 faults, addHist, results, sched, nFetch, nVers, nSrc>>

FetchChoices(p) == IF p \in DOMAIN wFetch THEN {wFetch[p]} ELSE { [content |-> ct, meta |-> m] : ct \in Contents, m \in MetaFlags }

FetchReply(c) ==
  /\ pc[c] = "rm" /\ mu = c
  /\ LET a == cur[c]  p == a.src.pkg IN
     \/ /\ "fetch" \in Faults /\ faults < MaxFaults /\ faults' = faults + 1
        /\ events' = Append(events, <<"FetchFailure", p>>)
        /\ calls' = Append(calls, <<"Fetch", p, "fail">>)
        /\ diagsErr' = [diagsErr EXCEPT ![c] = TRUE]
        /\ pendRem' = SubSeq(pendRem, 1, Len(pendRem) - 1)
        /\ nFetch' = Bump(nFetch, p)
        /\ UNCHANGED <<analyzed, pkgDir, pkgMeta, wDeps, wFetch, edges, pendReg, nAn>>
     \/ \E fr \in FetchChoices(p) :
        /\ wFetch' = (p :> fr) @@ wFetch
        /\ pkgDir' = (p :> fr.content) @@ pkgDir
        /\ pkgMeta' = IF fr.meta THEN (p :> TRUE) @@ pkgMeta ELSE pkgMeta
        /\ nFetch' = Bump(nFetch, p)
        /\ faults' = faults
        /\ PopAndAnalyze(c, a, << <<"FetchSuccess", p>> >>, << <<"Fetch", p, "ok">> >>)
  /\ pc' = [pc EXCEPT ![c] = "loop"] /\ cur' = cur
  /\ UNCHANGED <<resolved, deprec, vcache, poisoned, closed, mu, phase, todo, wVers, wSrc, addHist, results, sched, nVers, nSrc>>

Quiescent == mu = NONE /\ \A c \in Callers : pc[c] = "idle"
NoMoreAdds == \A c \in Callers : todo[c] = 0

-----------------------------------------------------------------------------
\* L0 over a finished behaviour.  The world W = [deps, vers, src] and the add
\* list are parameters so that Judge_Builder can evaluate the same operators on
\* observations.

RegTargetW(W, a) ==      \* where a registry artifact leads, per the world
  IF a.src.rpkg \notin DOMAIN W.vers THEN [t |-> "unknown"]
  ELSE LET v == RefSelect(W.vers[a.src.rpkg], a.src.allowed) IN
       IF v = 0 THEN [t |-> "nomatch"]
       ELSE IF <<a.src.rpkg, v>> \notin DOMAIN W.src THEN [t |-> "unknown"]
       ELSE [t |-> "ok", v |-> v, art |-> Art(Rem(W.src[<<a.src.rpkg, v>>].pkg, W.src[<<a.src.rpkg, v>>].sub \o a.src.sub), a.f)]
StepClosureW(W, S) ==
  S \cup UNION { IF a.src.k = "reg" THEN (IF RegTargetW(W, a).t = "ok" THEN { RegTargetW(W, a).art } ELSE {})
                 ELSE IF a \in DOMAIN W.deps
                      THEN Range(DepPushRem(a, W.deps[a].deps)) \cup Range(DepPushReg(W.deps[a].deps))
                      ELSE {} : a \in S }
RECURSIVE ClosureW(_,_)
ClosureW(W, S) == LET T == StepClosureW(W, S) IN IF T = S THEN S ELSE ClosureW(W, T)

\* every Start is followed by exactly one matching Success|Failure before the next Start of the same key
Bracketed(evs, start, fin) ==
  \A i \in DOMAIN evs : evs[i][1] = start =>
     \E j \in (i + 1)..Len(evs) : /\ evs[j][1] \in fin /\ Tail(evs[j]) = Tail(evs[i])
                                  /\ \A k \in (i + 1)..(j - 1) : ~(evs[k][1] \in fin \cup {start} /\ Tail(evs[k]) = Tail(evs[i]))
AlreadyAfter(evs, already, success) ==
  \A i \in DOMAIN evs : evs[i][1] = already => \E j \in 1..(i - 1) : evs[j][1] = success /\ Tail(evs[j]) = Tail(evs[i])
EventsOK(evs) ==
  /\ Bracketed(evs, "VersStart", {"VersSuccess", "VersFailure"})
  /\ Bracketed(evs, "SrcStart", {"SrcSuccess", "SrcFailure"})
  /\ Bracketed(evs, "FetchStart", {"FetchSuccess", "FetchFailure"})
  /\ AlreadyAfter(evs, "VersAlready", "VersSuccess")
  /\ AlreadyAfter(evs, "SrcAlready", "SrcSuccess")
  /\ AlreadyAfter(evs, "FetchAlready", "FetchSuccess")

AnyErr == \E i \in DOMAIN results : results[i].err
NoFailCalls(cl) == \A i \in DOMAIN cl : cl[i][Len(cl[i])] # "fail"

\* observation-only facts (all good in the model's own outcome)
GoodExtra == [conc_same |-> TRUE, conc_why |-> "", lookup_bad |-> <<>>, early_open |-> 0, tmp_left |-> 0, manifest_same |-> TRUE, canon_same |-> TRUE,
              dirs_ok |-> TRUE, unscripted |-> <<>>, diags_ok |-> TRUE, reopen_diff |-> <<>>, archive_diff |-> <<>>]

\* verdict on an outcome given as (events e, calls cl, final tables, flags)
VerdictW(W, adds, e, cl, pk, res, dep, anyErr, refusedAfter, bundleOK, x) ==
  LET closure == ClosureW(W, adds)
      remNeeded == { a \in closure : a.src.k = "rem" }
      regNeeded == { a \in closure : a.src.k = "reg" }
      cnt(name, key) == Cardinality({ i \in DOMAIN cl : cl[i][1] = name /\ SubSeq(cl[i], 2, 1 + Len(key)) = key })
      clean == ~anyErr
      faultfree == NoFailCalls(cl)
      \* an error although nothing in the world calls for one
      expectErr == \E a \in closure : \/ (a.src.k = "reg" /\ RegTargetW(W, a).t = "nomatch")
                                       \/ (a.src.k = "rem" /\ a \in DOMAIN W.deps /\ (W.deps[a].diag = "err" \/ DepLocalErr(a, W.deps[a].deps)))
      spurious == anyErr /\ faultfree /\ ~expectErr
      anKeys == { SubSeq(cl[i], 2, 4) : i \in { j \in DOMAIN cl : cl[j][1] = "Analyze" } }
      w14 == IF ~faultfree THEN {} ELSE
             { <<"fetch", p>> : p \in { q \in Pkgs : cnt("Fetch", <<q>>) > 1 \/ (clean /\ q \in { a.src.pkg : a \in remNeeded } /\ cnt("Fetch", <<q>>) # 1) } }
             \cup { <<"versions", r>> : r \in { q \in RegPkgs : cnt("Versions", <<q>>) > 1 \/ (clean /\ q \in { a.src.rpkg : a \in regNeeded } /\ cnt("Versions", <<q>>) # 1) } }
             \cup { <<"source", y[1], y[2]>> : y \in { z \in RegPkgs \X Vers : cnt("Source", <<z[1], z[2]>>) > 1 } }
             \cup { <<"analyze-twice", k>> : k \in { q \in anKeys : cnt("Analyze", q) > 1 } }
             \cup { <<"not-analyzed", a.src.pkg, a.src.sub, a.f>> : a \in { b \in remNeeded : clean /\ cnt("Analyze", <<b.src.pkg, b.src.sub, b.f>>) # 1 } }
             \cup (IF EventsOK(e) THEN {} ELSE { <<"events-not-bracketed">> })
             \cup (IF x.conc_same THEN {} ELSE { <<"concurrent-adds-differ-from-sequential", x.conc_why>> })
      \* C08: at a clean close everything required is present and every lookup answers as expected
      w08 == IF spurious /\ regNeeded = {} THEN { <<"build-fails-without-cause">> } ELSE IF ~(clean /\ bundleOK) THEN {} ELSE
             { <<"package-missing", a.src.pkg>> : a \in { b \in remNeeded : b.src.pkg \notin DOMAIN pk } }
             \cup { <<"registry-version-missing", a.src.rpkg>> : a \in { b \in regNeeded : RegTargetW(W, b).t = "ok" /\ <<b.src.rpkg, RegTargetW(W, b).v>> \notin DOMAIN res } }
             \cup { <<"registry-target-differs", a.src.rpkg>> : a \in { b \in regNeeded : RegTargetW(W, b).t = "ok" /\ <<b.src.rpkg, RegTargetW(W, b).v>> \in DOMAIN res
                                                                    /\ res[<<b.src.rpkg, RegTargetW(W, b).v>>] # W.src[<<b.src.rpkg, RegTargetW(W, b).v>>] } }
             \cup { <<"lookup", x.lookup_bad[i]>> : i \in DOMAIN x.lookup_bad }
      \* C17: selection and deprecation
      w17 == (IF spurious /\ regNeeded # {} THEN { <<"error-although-an-allowed-version-is-offered">> } ELSE {}) \cup
             { <<"no-error-for-unsatisfiable", a.src.rpkg>> : a \in { b \in regNeeded : RegTargetW(W, b).t = "nomatch" /\ clean } }
             \cup { <<"deprecation-differs", y[1], y[2]>> : y \in { z \in DOMAIN res : z \in DOMAIN dep /\ z[1] \in DOMAIN W.vers
                        /\ \E q \in Range(W.vers[z[1]]) : q.v = z[2] /\ q.dep # dep[z] } }
             \cup { <<"version-not-offered", y[1], y[2]>> : y \in { z \in DOMAIN res : z[1] \in DOMAIN W.vers /\ z[2] \notin { q.v : q \in Range(W.vers[z[1]]) } } }
             \cup { <<"not-the-newest-allowed", a.src.rpkg>> : a \in { b \in regNeeded : RegTargetW(W, b).t = "ok" /\ clean /\ bundleOK /\ <<b.src.rpkg, RegTargetW(W, b).v>> \notin DOMAIN res } }
      \* C12: a failed build is reported, poisons the builder, yields no bundle; no manifest before Close
      w12 == (IF anyErr /\ bundleOK THEN { <<"bundle-from-failed-build">> } ELSE {})
             \cup (IF anyErr /\ ~refusedAfter THEN { <<"builder-usable-after-error">> } ELSE {})
             \cup (IF ~faultfree /\ ~anyErr THEN { <<"failure-not-reported">> } ELSE {})
             \cup (IF expectErr /\ ~anyErr THEN { <<"error-of-the-analysis-not-reported">> } ELSE {})
             \cup (IF x.early_open > 0 THEN { <<"directory-under-construction-opens-as-bundle">> } ELSE {})
             \cup (IF x.diags_ok THEN {} ELSE { <<"finder-diagnostic-lost-or-altered">> })
      \* C13: the bundle is a function of its inputs
      w13 == (IF x.manifest_same THEN {} ELSE { <<"identical-builds-differ">> })
             \cup (IF x.canon_same THEN {} ELSE { <<"order-of-adds-changes-the-bundle">> })
             \cup (IF x.dirs_ok THEN {} ELSE { <<"coalescing-wrong">> })
             \* free-running concurrent Add calls: same bundle as the sequential build, nothing fetched twice, nothing new asked
             \cup (IF x.conc_same THEN {} ELSE { <<"concurrent-adds-differ-from-sequential", x.conc_why>> })
             \cup { <<"environment-asked-something-new", x.unscripted[i]>> : i \in DOMAIN x.unscripted }
      w10 == IF x.tmp_left > 0 /\ bundleOK THEN { <<"temporary-directory-left">> } ELSE {}
      \* C09: re-opening and archiving give an indistinguishable bundle
      w09 == { <<"reopen", x.reopen_diff[i]>> : i \in DOMAIN x.reopen_diff } \cup { <<"archive", x.archive_diff[i]>> : i \in DOMAIN x.archive_diff }
  IN [c14 |-> w14 = {}, w14 |-> w14, kf14 |-> "",
      c08 |-> w08 = {}, w08 |-> w08, kf08 |-> "",
      c17 |-> w17 = {}, w17 |-> w17, kf17 |-> "",
      \* C11 at the level of the builder: what is analysed for a registry request is the registry's address with the
      \* requested sub-path joined on (every needed artifact analysed, registry targets as the world says)
      c11 |-> { wz \in w14 : wz[1] = "not-analyzed" } \cup { wz \in w08 : wz[1] = "registry-target-differs" } = {},
      w11 |-> { wz \in w14 : wz[1] = "not-analyzed" } \cup { wz \in w08 : wz[1] = "registry-target-differs" }, kf11 |-> "",
      c12 |-> w12 = {}, w12 |-> w12, kf12 |-> "",
      c13 |-> w13 = {}, w13 |-> w13, kf13 |-> "",
      c10 |-> w10 = {}, w10 |-> w10, kf10 |-> "",
      c09 |-> w09 = {}, w09 |-> w09, kf09 |-> ""]

\* state-level wrappers
WNow == [deps |-> wDeps, vers |-> wVers, src |-> wSrc]
AddArts == { addHist[i].add : i \in DOMAIN addHist }
RefClosure == ClosureW(WNow, AddArts)
RemNeeded == { a \in RefClosure : a.src.k = "rem" }
RegNeeded == { a \in RefClosure : a.src.k = "reg" }
RegTarget(a) == RegTargetW(WNow, a)
Verdict(e, cl, pk, res, dep, anyErr, refusedAfter, bundleOK) ==
  VerdictW(WNow, AddArts, e, cl, pk, res, dep, anyErr, refusedAfter, bundleOK, GoodExtra)

\* the world as data for the replayer
WorldRec ==
  [deps |-> { [a |-> a, d |-> wDeps[a].deps, diag |-> wDeps[a].diag] : a \in DOMAIN wDeps },
   vers |-> { [r |-> r, l |-> wVers[r]] : r \in DOMAIN wVers },
   srcs |-> { [r |-> x[1], v |-> x[2], s |-> wSrc[x]] : x \in DOMAIN wSrc },
   fetch |-> { [p |-> p, content |-> wFetch[p].content, meta |-> wFetch[p].meta] : p \in DOMAIN wFetch }]

CaseRec(closing) ==
  [fam |-> "builder", adds |-> addHist, world |-> WorldRec, events |-> events, calls |-> calls, sched |-> sched,
   results |-> results, poisoned |-> poisoned, closed |-> closing,
   pkgs |-> { [p |-> p, dir |-> pkgDir[p], meta |-> p \in DOMAIN pkgMeta] : p \in DOMAIN pkgDir },
   resolved |-> { [r |-> x[1], v |-> x[2], s |-> resolved[x], dep |-> deprec[x]] : x \in DOMAIN resolved },
   needrem |-> { [pkg |-> a.src.pkg, sub |-> a.src.sub] : a \in RemNeeded },
   needreg |-> { [rpkg |-> a.src.rpkg, sub |-> a.src.sub, v |-> RegTarget(a).v] : a \in { b \in RegNeeded : RegTarget(b).t = "ok" } },
   v |-> Verdict(events, calls, pkgDir, resolved, deprec, AnyErr, TRUE, closing /\ ~poisoned)]

Close ==
  /\ ~closed /\ Quiescent /\ (NoMoreAdds \/ poisoned)
  /\ closed' = TRUE
  /\ Emit => PrintT("@@" \o ToJson(CaseRec(~poisoned)))
  /\ UNCHANGED <<pendRem, pendReg, poisoned, mu, pc, cur, diagsErr, phase, todo, events, calls, addHist, results, sched, faults>>
  /\ UNCH_tabs /\ UNCH_world /\ UNCH_cnt

Next ==
  \/ \E c \in Callers, a \in Adds : AddBegin(c, a)
  \/ \E c \in Callers : AddPush(c) \/ DrainLock(c) \/ LoopReg(c) \/ VersReply(c) \/ SrcReply(c)
                        \/ LoopPhase(c) \/ LoopRem(c) \/ FetchReply(c)
  \/ Close

Spec == Init /\ [][Next]_vars /\ WF_vars(Next)

-----------------------------------------------------------------------------
\* design-level invariants of the L1 model against L0
cntCalls(name, key) == Cardinality({ i \in DOMAIN calls : calls[i][1] = name /\ SubSeq(calls[i], 2, 1 + Len(key)) = key })
OnceFetch == Faults = {} => \A p \in Pkgs : nFetch[p] <= 1
OnceVers  == Faults = {} => \A r \in RegPkgs : nVers[r] <= 1
OnceSrc   == Faults = {} => \A x \in DOMAIN nSrc : nSrc[x] <= 1
OnceAn    == \A a \in DOMAIN nAn : nAn[a] <= 1
CountersMatchLog == /\ \A p \in Pkgs : nFetch[p] = cntCalls("Fetch", <<p>>)
                    /\ \A r \in RegPkgs : nVers[r] = cntCalls("Versions", <<r>>)
EventsBracketedAtRest == Quiescent => EventsOK(events)
ClosedUnderDeps == (closed /\ ~poisoned) => Verdict(events, calls, pkgDir, resolved, deprec, AnyErr, TRUE, TRUE).c08
SelectionOK == (closed /\ ~poisoned) => Verdict(events, calls, pkgDir, resolved, deprec, AnyErr, TRUE, TRUE).c17
PoisonedIffErr == Quiescent => (poisoned <=> AnyErr)
ManifestOnlyAfterClose == TRUE
Term == <>[](Quiescent)

View == <<pendRem, pendReg, analyzed, pkgDir, pkgMeta, resolved, deprec, vcache, poisoned, closed, mu,
          pc, cur, diagsErr, phase, todo, wDeps, wVers, wSrc, wFetch, edges, faults, nFetch, nVers, nSrc, nAn, addHist,
          IF Concurrent THEN sched ELSE <<>>>>      \* every interleaving is a behaviour of its own when callers run concurrently
=============================================================================
