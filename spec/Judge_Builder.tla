---------------------------- MODULE Judge_Builder ----------------------------
(* The L0 operators of Builder.tla evaluated on what the real Builder did:     *)
(* tracer events, environment call log, per-add results, bundle accessors,     *)
(* lookup checks, repeated / reordered builds, crash-point probes.             *)
EXTENDS MC_Builder

Obs == ndJsonDeserialize("mismatch.ndjson")
Seq2Set(s) == { s[i] : i \in DOMAIN s }

NormSrc(s) == IF s.k = "reg" THEN Reg(s.rpkg, s.sub, Seq2Set(s.allowed))
              ELSE IF s.k = "loc" THEN Loc([ups |-> s.rel.ups, names |-> s.rel.names])
              ELSE Rem(s.pkg, s.sub)
NormArt(a) == Art(NormSrc(a.src), a.f)
NormDeps(d) == [i \in DOMAIN d |-> NormArt(d[i])]

WorldOf(w) ==
  [deps |-> [a \in { NormArt(x.a) : x \in Seq2Set(w.deps) } |->
                LET x == CHOOSE y \in Seq2Set(w.deps) : NormArt(y.a) = a IN [deps |-> NormDeps(x.d), diag |-> x.diag]],
   vers |-> [r \in { x.r : x \in Seq2Set(w.vers) } |-> (CHOOSE y \in Seq2Set(w.vers) : y.r = r).l],
   src |-> [k \in { <<x.r, x.v>> : x \in Seq2Set(w.srcs) } |->
                LET x == CHOOSE y \in Seq2Set(w.srcs) : <<y.r, y.v>> = k IN Rem(x.s.pkg, x.s.sub)]]

JudgeOne(i) ==
  LET o == Obs[i]
      W == WorldOf(o.world)
      adds == { NormArt(o.adds[j].add) : j \in DOMAIN o.adds }
      pk == [p \in { x.p : x \in Seq2Set(o.pkgs) } |-> (CHOOSE y \in Seq2Set(o.pkgs) : y.p = p).dir]
      res == [k \in { <<x.r, x.v>> : x \in Seq2Set(o.resolved) } |->
                LET x == CHOOSE y \in Seq2Set(o.resolved) : <<y.r, y.v>> = k IN Rem(x.s.pkg, x.s.sub)]
      dep == [k \in { <<x.r, x.v>> : x \in Seq2Set(o.resolved) } |->
                (CHOOSE y \in Seq2Set(o.resolved) : <<y.r, y.v>> = k).dep]
      anyErr == \E j \in DOMAIN o.results : o.results[j].err
      x == [conc_same |-> o.conc_same, conc_why |-> o.conc_why, lookup_bad |-> o.lookup_bad, early_open |-> o.early_open, tmp_left |-> o.tmp_left,
            manifest_same |-> o.manifest_same, canon_same |-> o.canon_same, dirs_ok |-> o.dirs_ok,
            unscripted |-> o.unscripted, diags_ok |-> o.diags_ok, reopen_diff |-> o.reopen_diff, archive_diff |-> o.archive_diff]
      v == VerdictW(W, adds, o.events, o.calls, pk, res, dep, anyErr, o.refused_after, o.bundle_ok, x)
  IN PrintT("@@" \o ToJson([fam |-> "judge", idx |-> i,
        v |-> v @@ [c19 |-> o.panic = "", w19 |-> IF o.panic = "" THEN {} ELSE {o.panic}, kf19 |-> ""],
        l1 |-> [st |-> "", why |-> "", v |-> [c14 |-> TRUE, w14 |-> {}, c08 |-> TRUE, w08 |-> {}, c17 |-> TRUE, w17 |-> {},
                                              c12 |-> TRUE, w12 |-> {}, c13 |-> TRUE, w13 |-> {}, c11 |-> TRUE, w11 |-> {}, c10 |-> TRUE, w10 |-> {}, c09 |-> TRUE, w09 |-> {}, c19 |-> TRUE, w19 |-> {}]]]))

ASSUME \A i \in DOMAIN Obs : JudgeOne(i)
=============================================================================
