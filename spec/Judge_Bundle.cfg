SPECIFICATION Spec
CONSTANTS
  MaxPkgs = 2
  Part = "none"
CHECK_DEADLOCK FALSE
