SPECIFICATION Spec
CONSTANTS
  MaxPkgs = 2
  Part = "all"
CHECK_DEADLOCK FALSE
