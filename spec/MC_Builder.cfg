SPECIFICATION Spec
CONSTANTS
  NONE = "none"
  Pkgs = {"P1", "P2"}
  Subs <- MCSubs
  Finders = {"F1"}
  RegPkgs = {"R1"}
  Vers = {1, 2}
  AllowedSets <- MCAllowedQ
  Callers = {"c1"}
  Adds <- MCAdds
  Contents = {1}
  MetaFlags = {FALSE}
  DepFlags = {FALSE}
  LocalRels <- MCLocalRelsQ
  MaxEdges = 2
  MaxDeps = 2
  MaxAdds = 2
  MaxFaults = 0
  Faults = {}
  DiagKinds = {"none"}
  Concurrent = FALSE
  Emit = FALSE
VIEW View
INVARIANTS OnceFetch OnceVers OnceSrc OnceAn EventsBracketedAtRest ClosedUnderDeps SelectionOK PoisonedIffErr
CHECK_DEADLOCK FALSE
