---------------------------- MODULE Judge_Bundle ----------------------------
(* C18 on observations: what the real OpenDir / lookups did for a manifest.  *)
EXTENDS Bundle
Obs == ndJsonDeserialize("mismatch.ndjson")
JudgeOne(i) ==
  LET o == Obs[i]
      w == (IF o.opened /\ o.case.hostile THEN {"hostile-directory-name-accepted"} ELSE {})
           \cup (IF o.opened /\ o.outside > 0 THEN {"lookup-outside-the-bundle-root"} ELSE {})
           \cup (IF o.opened /\ o.not_inverting > 0 THEN {"reverse-lookup-does-not-invert"} ELSE {})
           \cup (IF o.opened /\ o.outside_accepted > 0 THEN {"path-outside-any-package-accepted"} ELSE {})
           \cup (IF o.opened /\ ~o.case.open THEN {"invalid-manifest-accepted"} ELSE {})
      \* rejecting a manifest the model accepts is drift, not a C18 violation, unless nothing hostile is in it
      \* and it is a plain valid document: then lookups could not be served
  IN PrintT("@@" \o ToJson([fam |-> "judge", idx |-> i, same |-> TRUE,
        v |-> [c18 |-> w = {}, w18 |-> w, kf18 |-> "", c19 |-> o.panic = "", w19 |-> IF o.panic = "" THEN {} ELSE {o.panic}, kf19 |-> ""],
        l1 |-> [st |-> "", why |-> "", v |-> [c18 |-> TRUE, w18 |-> {}, c19 |-> TRUE, w19 |-> {}]]]))
ASSUME \A i \in DOMAIN Obs : JudgeOne(i)
=============================================================================
