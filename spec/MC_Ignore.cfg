SPECIFICATION Spec
CONSTANTS
  DEV_BlankPanics = FALSE
  DEV_StarEmptySeg = FALSE
INVARIANT Agree
CHECK_DEADLOCK FALSE
