--------------------------------- MODULE FS ---------------------------------
(***************************************************************************)
(* The world the slug code runs in: an abstract POSIX filesystem and the    *)
(* Go standard-library operations over it, as *operators* (no variables).   *)
(*                                                                         *)
(* fs : [set of clean absolute paths -> Node]                               *)
(* Node == [k : "d" | "f" | "l" | "p" (fifo), m : perm as decimal-looking   *)
(*          octal (755), t : abstract mtime, c : content id, tgt : raw      *)
(*          tokens of a link target]                                        *)
(*                                                                         *)
(* Owner-permission checks: Unpriv = FALSE models a privileged caller (no    *)
(* check ever fails); a cfg may override Unpriv with TRUE, which models an   *)
(* unprivileged caller that owns every node, so that the owner bits of m     *)
(* decide (search on every directory traversed, write on the directory an    *)
(* entry is added to or removed from, read+write on a file opened O_RDWR).   *)
(* NOW is the mtime the kernel gives to anything touched during the run.    *)
(***************************************************************************)
EXTENDS Paths, TLC

FUEL == 6          \* ELOOP budget (the kernel's 40 is unreachable in the bound)
NOW  == 99

DirNode(m, t)     == [k |-> "d", m |-> m, t |-> t, c |-> 0, tgt |-> <<>>]
FileNode(m, t, c) == [k |-> "f", m |-> m, t |-> t, c |-> c, tgt |-> <<>>]
LinkNode(tg)      == [k |-> "l", m |-> 777, t |-> NOW, c |-> 0, tgt |-> tg]
FifoNode(m, t)    == [k |-> "p", m |-> m, t |-> t, c |-> 0, tgt |-> <<>>]

Unpriv == FALSE
OwnerBit(n, b) == ((n.m \div 100) \div b) % 2 = 1
CanR(n) == ~Unpriv \/ OwnerBit(n, 4)
CanW(n) == ~Unpriv \/ OwnerBit(n, 2)
CanX(n) == ~Unpriv \/ OwnerBit(n, 1)
DirW(fs, d) == d \notin DOMAIN fs \/ CanW(fs[d])

(* Kernel path resolution from directory cur.  Result classes are the ones  *)
(* os.IsNotExist / os.IsExist distinguish:                                  *)
(*   ok        resolved, p is the node                                      *)
(*   noent     last component missing (p = where it would be created)       *)
(*   noentmid  an intermediate component is missing (ENOENT as well)        *)
(*   notdir    an intermediate component is not a directory (ENOTDIR)       *)
(*   loop      too many links (ELOOP)                                       *)
(*   perm      a directory on the way may not be searched (EACCES)          *)
RECURSIVE Res(_,_,_,_,_)
Res(fs, cur, toks, fuel, followLast) ==
  IF toks = <<>> THEN [st |-> "ok", p |-> cur]
  ELSE LET h == Head(toks)  t == Tail(toks) IN
    IF h = "" \/ h = "." THEN Res(fs, cur, t, fuel, followLast)
    ELSE IF cur \in DOMAIN fs /\ ~CanX(fs[cur]) THEN [st |-> "perm", p |-> cur]
    ELSE IF h = ".." THEN Res(fs, Parent(cur), t, fuel, followLast)
    ELSE LET q == Append(cur, h) IN
      IF q \notin DOMAIN fs
        THEN IF NoOps(t) THEN [st |-> "noent", p |-> q] ELSE [st |-> "noentmid", p |-> q]
      ELSE IF fs[q].k = "l" /\ (t # <<>> \/ followLast)
        THEN IF fuel = 0 THEN [st |-> "loop", p |-> q]
             ELSE LET tg == fs[q].tgt IN
                  Res(fs, IF IsAbsT(tg) THEN Root ELSE cur, tg \o t, fuel - 1, followLast)
      ELSE IF t # <<>> /\ fs[q].k # "d" THEN [st |-> "notdir", p |-> q]
      ELSE Res(fs, q, t, fuel, followLast)

IsNotExist(r) == r.st \in {"noent", "noentmid"}

\* resolution of a clean absolute path
ResAbs(fs, p, followLast) == Res(fs, Root, p, FUEL, followLast)

(* Physical resolution that continues *lexically* past the first missing    *)
(* component: where a path would lead once everything it names exists.      *)
(* This is the C04 oracle ("the way the operating system follows it").      *)
(* A resolution that runs out of link budget leads nowhere (ELOOP): LOOPED. *)
LOOPED == <<"#loop">>
RECURSIVE ResLex(_,_,_,_)
ResLex(f, cur, toks, fuel) ==
  IF toks = <<>> THEN cur
  ELSE LET h == Head(toks)  t == Tail(toks) IN
    IF h = "" \/ h = "." THEN ResLex(f, cur, t, fuel)
    ELSE IF h = ".." THEN ResLex(f, Parent(cur), t, fuel)
    ELSE LET q == Append(cur, h) IN
      IF q \in DOMAIN f /\ f[q].k = "l"
        THEN IF fuel = 0 THEN LOOPED
             ELSE LET tg == f[q].tgt IN ResLex(f, IF IsAbsT(tg) THEN Root ELSE cur, tg \o t, fuel - 1)
      ELSE ResLex(f, q, t, fuel)

Touch(fs, d) == IF d \in DOMAIN fs /\ fs[d].k = "d" THEN [fs EXCEPT ![d].t = NOW] ELSE fs
AddNode(fs, p, n) == Touch((p :> n) @@ fs, Parent(p))
DelNode(fs, p) == Touch([q \in (DOMAIN fs) \ {p} |-> fs[q]], Parent(p))
DelTree(fs, p) == Touch([q \in { x \in DOMAIN fs : ~Under(x, p) } |-> fs[q]], Parent(p))

\* os.MkdirAll(p, 0755): Stat fast path, parent first, Mkdir, Lstat re-check
RECURSIVE MkdirAll(_,_)
MkdirAll(fs, p) ==
  LET r == ResAbs(fs, p, TRUE) IN
  IF r.st = "ok" THEN [ok |-> fs[r.p].k = "d", fs |-> fs]
  ELSE IF p = <<>> THEN [ok |-> FALSE, fs |-> fs]
  ELSE LET pr == MkdirAll(fs, Parent(p)) IN
       IF ~pr.ok THEN pr
       ELSE LET r2 == ResAbs(pr.fs, p, FALSE) IN       \* mkdir(2) does not follow the last link
            IF r2.st = "noent" /\ ~DirW(pr.fs, Parent(r2.p)) THEN [ok |-> FALSE, fs |-> pr.fs]      \* EACCES
            ELSE IF r2.st = "noent" THEN [ok |-> TRUE, fs |-> AddNode(pr.fs, r2.p, DirNode(755, NOW))]
            ELSE IF r2.st = "ok" /\ pr.fs[r2.p].k = "d" THEN [ok |-> TRUE, fs |-> pr.fs]
            ELSE [ok |-> FALSE, fs |-> pr.fs]           \* partial effects stay

\* os.Create (O_CREAT|O_TRUNC, 0666 & ~umask=0644): follows the last link,
\* creates through a dangling one
Create(fs, p) ==
  LET r == ResAbs(fs, p, TRUE) IN
  IF r.st = "ok" THEN
       IF fs[r.p].k = "f" THEN
            IF CanR(fs[r.p]) /\ CanW(fs[r.p]) THEN [ok |-> TRUE, perm |-> FALSE, at |-> r.p, fs |-> [fs EXCEPT ![r.p].c = 0, ![r.p].t = NOW]]
            ELSE [ok |-> FALSE, perm |-> TRUE, at |-> r.p, fs |-> fs]                  \* EACCES: O_RDWR on a file the owner bits protect
       ELSE [ok |-> FALSE, perm |-> FALSE, at |-> r.p, fs |-> fs]       \* EISDIR (fifo: excluded from universes)
  ELSE IF r.st = "noent" THEN
       IF DirW(fs, Parent(r.p)) THEN [ok |-> TRUE, perm |-> FALSE, at |-> r.p, fs |-> AddNode(fs, r.p, FileNode(644, NOW, 0))]
       ELSE [ok |-> FALSE, perm |-> TRUE, at |-> r.p, fs |-> fs]
  ELSE [ok |-> FALSE, perm |-> r.st = "perm", at |-> p, fs |-> fs]

\* os.Chmod: follows links; errors are the caller's business
Chmod(fs, p, m) ==
  LET r == ResAbs(fs, p, TRUE) IN
  IF r.st = "ok" THEN [fs EXCEPT ![r.p].m = m] ELSE fs

\* os.Chmod + os.Chtimes: both follow links
ChmodChtimes(fs, p, m, t) ==
  LET r == ResAbs(fs, p, TRUE) IN
  IF r.st = "ok" THEN [ok |-> TRUE, noent |-> FALSE, fs |-> [fs EXCEPT ![r.p].m = m, ![r.p].t = t]]
  ELSE [ok |-> FALSE, noent |-> IsNotExist(r), fs |-> fs]

\* os.Symlink: EEXIST on anything, never follows the last component
Symlink(fs, tg, p) ==
  LET r == ResAbs(fs, p, FALSE) IN
  IF tg = <<>> \/ tg = <<"">> THEN [ok |-> FALSE, fs |-> fs]           \* symlink(2): empty target is ENOENT
  ELSE IF r.st = "noent" /\ DirW(fs, Parent(r.p)) THEN [ok |-> TRUE, fs |-> AddNode(fs, r.p, LinkNode(tg))]
  ELSE [ok |-> FALSE, fs |-> fs]

\* os.Lstat: the node itself
Lstat(fs, p) ==
  LET r == ResAbs(fs, p, FALSE) IN
  IF r.st = "ok" THEN [ok |-> TRUE, noent |-> FALSE, p |-> r.p, n |-> fs[r.p]]
  ELSE [ok |-> FALSE, noent |-> IsNotExist(r), p |-> r.p]
Stat(fs, p) ==
  LET r == ResAbs(fs, p, TRUE) IN
  IF r.st = "ok" THEN [ok |-> TRUE, noent |-> FALSE, p |-> r.p, n |-> fs[r.p]]
  ELSE [ok |-> FALSE, noent |-> IsNotExist(r), p |-> r.p]

\* os.Remove of a non-directory
Remove(fs, p) ==
  LET r == ResAbs(fs, p, FALSE) IN
  IF r.st = "ok" /\ fs[r.p].k # "d" /\ DirW(fs, Parent(r.p)) THEN [ok |-> TRUE, fs |-> DelNode(fs, r.p)]
  ELSE [ok |-> FALSE, fs |-> fs]

\* os.RemoveAll
RemoveAll(fs, p) ==
  LET r == ResAbs(fs, p, FALSE) IN
  IF r.st = "ok" THEN [ok |-> TRUE, fs |-> DelTree(fs, r.p)]
  ELSE [ok |-> IsNotExist(r), fs |-> fs]

Snapshot(f) == { [p |-> p, n |-> f[p]] : p \in DOMAIN f }
Seq2Set(s) == { s[i] : i \in DOMAIN s }
FromSnapshot(S) == [ p \in { x.p : x \in S } |-> (CHOOSE x \in S : x.p = p).n ]

\* children names of a directory, as a set
KidNames(f, p) == { q[Len(q)] : q \in { r \in DOMAIN f : Len(r) = Len(p) + 1 /\ SubSeq(r, 1, Len(p)) = p } }
=============================================================================
