------------------------------- MODULE Paths -------------------------------
(***************************************************************************)
(* Lexical path algebra shared by every family.                            *)
(*                                                                         *)
(* A path is a sequence of name tokens.  Raw spellings keep the tokens     *)
(* "" (empty segment: leading "/" , doubled "//", trailing "/"), "." and   *)
(* ".." because the code under test calls strings.Split, filepath.Join,    *)
(* Clean, Rel and Abs on them.  A cleaned absolute path is a sequence of    *)
(* proper names counted from the filesystem root <<>>.                      *)
(*                                                                         *)
(* The module is VARIABLE-free and CONSTANT-free so that every algorithm    *)
(* module can EXTEND it.  The one relation between *names* that the code    *)
(* is sensitive to -- one name being a proper string prefix of another,     *)
(* which is what separates strings.HasPrefix from segment containment --    *)
(* is passed explicitly as a set of pairs SP.                               *)
(***************************************************************************)
EXTENDS Naturals, Sequences, FiniteSets

Root == <<>>
Parent(p) == IF p = <<>> THEN <<>> ELSE SubSeq(p, 1, Len(p) - 1)
Last(p) == p[Len(p)]
IsPrefixP(a, b) == Len(a) <= Len(b) /\ SubSeq(b, 1, Len(a)) = a
Under(p, d) == IsPrefixP(d, p)               \* p = d or p below d (segment-wise)
StrictlyUnder(p, d) == Under(p, d) /\ p # d
ProperPrefixP(a, b) == Len(a) < Len(b) /\ SubSeq(b, 1, Len(a)) = a

IsAbsT(toks) == Len(toks) >= 2 /\ toks[1] = ""        \* <<"">> spells the empty string, <<"","">> spells "/"
NoOps(t) == \A i \in 1..Len(t) : t[i] \in {"", "."}
HasDotDot(t) == \E i \in 1..Len(t) : t[i] = ".."

\* filepath.Join(base, toks) followed by Clean, for a clean absolute base.
\* (".." at the root stays at the root, as Clean does for rooted paths.)
RECURSIVE JoinClean(_,_)
JoinClean(base, toks) ==
  IF toks = <<>> THEN base
  ELSE LET h == Head(toks) IN
       IF h = "" \/ h = "." THEN JoinClean(base, Tail(toks))
       ELSE IF h = ".." THEN JoinClean(Parent(base), Tail(toks))
       ELSE JoinClean(Append(base, h), Tail(toks))

\* filepath.Clean of a *relative* raw token list: result keeps leading ".."s.
RECURSIVE CleanRelAcc(_,_)
CleanRelAcc(acc, toks) ==
  IF toks = <<>> THEN acc
  ELSE LET h == Head(toks) IN
       IF h = "" \/ h = "." THEN CleanRelAcc(acc, Tail(toks))
       ELSE IF h = ".." THEN
              IF acc # <<>> /\ Last(acc) # ".." THEN CleanRelAcc(Parent(acc), Tail(toks))
              ELSE CleanRelAcc(Append(acc, ".."), Tail(toks))
       ELSE CleanRelAcc(Append(acc, h), Tail(toks))
CleanRel(toks) == CleanRelAcc(<<>>, toks)

\* filepath.Abs(cwd, toks): absolute tokens are cleaned from the root,
\* relative ones joined to cwd.
AbsP(cwd, toks) == IF IsAbsT(toks) THEN JoinClean(Root, toks) ELSE JoinClean(cwd, toks)

\* filepath.Rel(a, b) for clean absolute paths
RECURSIVE Common(_,_)
Common(a, b) == IF a = <<>> \/ b = <<>> \/ Head(a) # Head(b) THEN 0
                ELSE 1 + Common(Tail(a), Tail(b))
Ups(n) == [i \in 1..n |-> ".."]
RelP(a, b) == LET c == Common(a, b) IN Ups(Len(a) - c) \o SubSeq(b, c + 1, Len(b))

\* name-level string prefix: SP is a set of <<short, long>> pairs
NamePrefix(SP, a, b) == a = b \/ <<a, b>> \in SP

\* strings.HasPrefix("/"+join(p,"/"), "/"+join(q,"/")) for clean absolute p, q:
\* all but the last name of q must be equal; the last name of q only has to be
\* a string prefix of the name of p at that position (the sibling-prefix hole).
StrHasPrefix(SP, p, q) ==
  \/ q = <<>>
  \/ /\ Len(q) <= Len(p)
     /\ SubSeq(p, 1, Len(q) - 1) = SubSeq(q, 1, Len(q) - 1)
     /\ NamePrefix(SP, q[Len(q)], p[Len(q)])

\* the separator-aware test:  p == q  or  HasPrefix(p, q + "/")
SegHasPrefix(p, q) == Under(p, q)

RECURSIVE CatS(_)
CatS(q) == IF q = <<>> THEN "" ELSE IF Len(q) = 1 THEN q[1] ELSE q[1] \o "/" \o CatS(Tail(q))
=============================================================================
