SPECIFICATION Spec
CONSTANTS
  Alphabet <- AlphaQuick
  MaxLen = 2
  Emit = TRUE
  FS0 <- MCFS0
  Dst <- MCDst
  SP <- MCSP
  Allow = {}
  DEV_StrPrefix = FALSE
  DEV_DirNotCreated = FALSE
  DEV_CreateThroughLink = FALSE
  DEV_AbsInside = TRUE
  DEV_DirThroughLink = FALSE
  DEV_WalkRawName = FALSE
  DEV_LinkRawName = FALSE
  DEV_LinkOneSlash = FALSE
  Unpriv <- MCFalse
VIEW View
INVARIANT TypeOK
CHECK_DEADLOCK FALSE
