----------------------------- MODULE MC_Prepare -----------------------------
(* Universe for C10 / C03 (bundle half): fetched package trees with links of  *)
(* every shape, a fifo, rule files; arena with a sibling package and a victim *)
(* outside the target.                                                        *)
EXTENDS Prepare

CONSTANTS PUniverse, PRuleMode

MCTarget == <<"A", "T">>
D7 == DirNode(755, 1)
PNameOrder == <<"", ".", "..", ".git", ".terraform", ".terraformignore", "A", "T", "a", "ab", "b", "f", "g", "h", "k", "l", "modules", "p", "s", "sib", "v", "w", "x">>
PNameChars == [n \in { PNameOrder[i] : i \in DOMAIN PNameOrder } |->
   CASE n = ".git" -> DotGit [] n = ".terraform" -> DotTerraform [] n = "modules" -> Modules
     [] n = ".terraformignore" -> <<".","t","e","r","r","a","f","o","r","m","i","g","n","o","r","e">>
     [] n = "ab" -> <<"a","b">> [] n = "sib" -> <<"s","i","b">> [] n = ".." -> <<".",".">>
     [] OTHER -> <<n>>]

ArenaP == (Root :> D7) @@ (<<"A">> :> D7) @@ (<<"A","v">> :> FileNode(600, 1, 7)) @@ (MCTarget :> D7)
          @@ (<<"A","T","sib">> :> D7) @@ (<<"A","T","sib","g">> :> FileNode(644, 2, 4))
          @@ (<<"A","T","w">> :> D7)
W(rel) == <<"A","T","w">> \o rel
LinkSlotW(rel, tg) == IF tg = <<"-">> THEN <<>> ELSE (W(rel) :> LinkNode(tg))

\* link universe: target shapes for a link at the package root (l) and one inside the directory s (k)
TLp == { <<"f">>, <<"s">>, <<"s","g">>, <<"nowhere">>, <<"..","sib","g">>, <<"..","terraform-sources.json">>, <<"..","..","v">>,
         <<"k">>, <<"..","w","f">>, <<"","A","T","w","f">>, <<"","A","v">>, <<"s","..","f">>, <<"p">>,
         <<".","..","w","f">>, <<"s","..","..","w","f">> }      \* re-entry through the work directory's name, not spelled with a leading ".."
TKp == { <<"..","f">>, <<"g">>, <<"..","..","sib">>, <<"..","..","sib","g">>, <<"..","l">>, <<".","..","..","w","f">> }
CoreP == (W(<<"f">>) :> FileNode(644, 2, 1)) @@ (W(<<"s">>) :> D7) @@ (W(<<"s","g">>) :> FileNode(600, 2, 2))
LinkTrees ==
  { LinkSlotW(<<"l">>, l) @@ LinkSlotW(<<"s","k">>, k) @@ (IF fifo = "root" THEN (W(<<"p">>) :> FifoNode(644, 2)) ELSE IF fifo = "ins" THEN (W(<<"s","p">>) :> FifoNode(644, 2)) ELSE <<>>)
    @@ (IF rf THEN (W(<<".terraformignore">>) :> FileNode(644, 2, RuleFileC)) ELSE <<>>) @@ CoreP @@ ArenaP
    : l \in TLp \cup {<<"-">>}, k \in TKp \cup {<<"-">>}, fifo \in {"none", "root", "ins"}, rf \in BOOLEAN }
\* rule lists used with the link universe: ignore the directory s (with the fifo / link inside), or the link itself
LinkRules == { <<>>, << SR(FALSE, FALSE, TRUE, <<<<"s">>>>) >>, << SR(FALSE, FALSE, TRUE, <<<<"l">>>>) >>, << SR(FALSE, TRUE, FALSE, <<<<"l">>>>) >>, << SR(FALSE, FALSE, FALSE, <<<<"p">>>>) >> }

\* saturated tree for the rule language on package paths
SatP == [ p \in ( { <<d>> : d \in {"a", "ab"} } \cup { <<d1, d2>> : d1 \in {"a", "ab"}, d2 \in {"a", "ab"} } ) |-> D7 ]
        @@ [ p \in ( { <<"b">> } \cup { <<d, "b">> : d \in {"a", "ab"} } \cup { <<d1, d2, "b">> : d1 \in {"a", "ab"}, d2 \in {"a", "ab"} } ) |-> FileNode(644, 2, 1) ]
        @@ (<<".git">> :> D7) @@ (<<".git","b">> :> FileNode(644, 2, 1))
        @@ (<<".terraform">> :> D7) @@ (<<".terraform","b">> :> FileNode(644, 2, 1))
        @@ (<<".terraform","modules">> :> D7) @@ (<<".terraform","modules","b">> :> FileNode(644, 2, 1))
        @@ (<<".terraform","modules",".git">> :> D7) @@ (<<".terraform","modules",".git","b">> :> FileNode(644, 2, 1))
RuleTree == [ p \in { W(r) : r \in DOMAIN SatP } |-> SatP[SubSeq(p, 4, Len(p))] ]
            @@ (W(<<".terraformignore">>) :> FileNode(644, 2, RuleFileC)) @@ ArenaP
SegPatsP == { <<"a">>, <<"b">>, <<"a","*">>, <<"*">>, <<"?">>, <<"a","?">> }
SegListsP == { <<s>> : s \in SegPatsP } \cup { <<s, t>> : s \in SegPatsP \cup {DSeg}, t \in SegPatsP } \cup { <<<<"a">>, DSeg, <<"b">>>> }
RulesP == { SR(n, a, d, sg) : n \in BOOLEAN, a \in BOOLEAN, d \in BOOLEAN, sg \in SegListsP }
RuleListsP == CASE PRuleMode = "single" -> { <<r>> : r \in { x \in RulesP : ~x.neg } }
                [] PRuleMode = "pairq" -> { <<r, q>> : r \in { x \in RulesP : ~x.neg /\ Len(x.segs) = 1 }, q \in { x \in RulesP : x.neg /\ ~x.anch /\ Len(x.segs) <= 2 } }
                [] PRuleMode = "pair" -> { <<r, q>> : r \in { x \in RulesP : ~x.neg }, q \in { x \in RulesP : x.neg } }
                [] PRuleMode = "quad" -> { << SR(FALSE, a1, TRUE, <<d1>>), SR(TRUE, a1, FALSE, <<d1, <<"b">>>>), SR(FALSE, a2, TRUE, <<d2>>), SR(TRUE, a2, FALSE, <<d2, k>>) >>
                                : d1 \in { <<"a">>, <<"a","b">> }, d2 \in { <<"a">>, <<"a","b">> }, k \in { <<"b">>, <<"a">>, <<"*">> }, a1 \in BOOLEAN, a2 \in BOOLEAN }
                [] OTHER -> { <<>> }

VARIABLES ptree, prules, pdone
Init == /\ pdone = FALSE
        /\ \/ PUniverse = "links" /\ ptree \in LinkTrees /\ prules \in LinkRules
           \/ PUniverse = "rules" /\ ptree = RuleTree /\ prules \in RuleListsP
           \/ PUniverse = "judge" /\ ptree = ArenaP /\ prules = <<>>

LinesP(rl) == [i \in DOMAIN rl |-> SpellRule(rl[i])]
RECURSIVE CatP(_)
CatP(s) == IF s = <<>> THEN "" ELSE Head(s) \o CatP(Tail(s))
HasRF(f) == W(<<".terraformignore">>) \in DOMAIN f

Go ==
  /\ ~pdone /\ PUniverse # "judge"
  /\ LET r == PrepRun(ptree, LinesP(prules), HasRF(ptree))
         rl == IF HasRF(ptree) THEN prules ELSE <<>>
         rec == [fam |-> "prep", tree |-> Snapshot(ptree), rules |-> rl, lines |-> [i \in DOMAIN rl |-> CatP(SpellRule(rl[i]))],
                 st |-> r.st, fs |-> Snapshot(r.fs),
                 v |-> PrepVerdict(ptree, rl, r.st, r.fs, {}, FALSE) @@ [kf10 |-> KF10Class(ptree, rl, r.st, r.fs), kf03 |-> "", kf19 |-> ""]]
     IN PrintT("@@" \o ToJson(rec))
  /\ pdone' = TRUE /\ UNCHANGED <<ptree, prules>>
Spec == Init /\ [][Go]_<<ptree, prules, pdone>>
=============================================================================
