----------------------------- MODULE Judge_Addr -----------------------------
(* C06 / C07 / C11 predicates evaluated on what the real sourceaddrs API      *)
(* returned for a generated case that deviates from the model's expectation.  *)
EXTENDS Addr

Obs == ndJsonDeserialize("mismatch.ndjson")
Seq2Set(s) == { s[i] : i \in DOMAIN s }

RecOf(r) == IF r.kind # "remote" THEN [kind |-> r.kind]
            ELSE [kind |-> "remote", type |-> r.type, scheme |-> r.scheme, user |-> r.user, qkeys |-> Seq2Set(r.qkeys),
                  qmultikeys |-> Seq2Set(r.qmultikeys), archive |-> r.archive, archpath |-> r.archpath, sub |-> r.sub]
LawsOK(l) == l.reparse_ok /\ l.reparse_equal /\ l.print_idem /\ l.same_kind /\ l.derived_ok /\ l.pairs_ok

JudgeOne(i) ==
  LET o == Obs[i]  c == o.case
      isParse == c.op = "parse"
      c07 == IF ~isParse THEN TRUE
             ELSE /\ (c.expect = "accept" => o.ok) /\ (c.expect = "reject" => ~o.ok)
                  /\ (o.ok => Policy(RecOf(o.rec)))
                  /\ (o.make_ok => Policy(RecOf(o.make_rec)))
      w07 == IF ~isParse THEN {} ELSE
             (IF c.expect = "accept" /\ ~o.ok THEN {"grammar-address-rejected"} ELSE {})
             \cup (IF c.expect = "reject" /\ o.ok THEN {"rule-violation-accepted"} ELSE {})
             \cup (IF o.ok /\ ~Policy(RecOf(o.rec)) THEN {"policy-violated-by-accepted-address"} ELSE {})
             \cup (IF o.make_ok /\ ~Policy(RecOf(o.make_rec)) THEN {"policy-violated-by-constructed-address"} ELSE {})
      c11 == IF isParse THEN TRUE
             ELSE o.ok = c.expect.ok /\ (o.ok => o.str = c.expect.str) /\ o.laws.derived_ok
      w11 == IF isParse \/ c11 THEN {} ELSE {"got:" \o (IF o.ok THEN o.str ELSE "error") \o " want:" \o (IF c.expect.ok THEN c.expect.str ELSE "error")}
      \* the laws hold of parsed values and of values assembled with MakeRemoteSource alike
      c06 == (o.ok => LawsOK(o.laws)) /\ (o.make_ok => LawsOK(o.make_laws))
      d06 == (IF o.ok /\ ~LawsOK(o.laws) THEN {o.laws.detail} ELSE {}) \cup (IF o.make_ok /\ ~LawsOK(o.make_laws) THEN {"constructed: " \o o.make_laws.detail} ELSE {})
      kf06 == IF c06 THEN "" ELSE IF "kf06" \in DOMAIN c THEN c.kf06 ELSE ""
  IN PrintT("@@" \o ToJson([fam |-> "judge", idx |-> i, same |-> TRUE,
        v |-> [c07 |-> c07, w07 |-> w07, kf07 |-> "", c11 |-> c11, w11 |-> w11, kf11 |-> "",
               c06 |-> c06, w06 |-> d06, kf06 |-> kf06,
               c19 |-> o.panic = "", w19 |-> IF o.panic = "" THEN {} ELSE {o.panic}, kf19 |-> ""],
        l1 |-> [st |-> "", why |-> "",
                v |-> [c07 |-> TRUE, w07 |-> {}, c11 |-> TRUE, w11 |-> {},
                       c06 |-> kf06 = "", w06 |-> IF kf06 = "" THEN {} ELSE d06, c19 |-> TRUE, w19 |-> {}]]]))

ASSUME \A i \in DOMAIN Obs : JudgeOne(i)
=============================================================================
