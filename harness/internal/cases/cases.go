// Package cases carries records from TLC to the replayer and results back.
//
// TLC prints each generated case as PrintT("@@" \o ToJson(rec)), i.e. a quoted,
// escaped JSON string on one line. Lines are streamed from stdin, decoded and
// fanned out to a worker pool.
package cases

import (
	"bufio"
	"encoding/json"
	"io"
	"os"
	"strings"
	"sync"
)

// Lines decodes every @@ record found on r and sends the inner JSON to fn's
// workers. Non-record lines are copied to passthru (TLC's own log).
func Lines(r io.Reader, passthru io.Writer, workers int, pre func(raw []byte) bool, fn func(worker int, raw []byte)) int {
	sc := bufio.NewScanner(r)
	sc.Buffer(make([]byte, 1<<20), 1<<28)
	ch := make(chan []byte, 4096)
	var wg sync.WaitGroup
	for w := 0; w < workers; w++ {
		wg.Add(1)
		go func(w int) {
			defer wg.Done()
			for raw := range ch {
				fn(w, raw)
			}
		}(w)
	}
	n := 0
	for sc.Scan() {
		line := sc.Text()
		if strings.HasPrefix(line, "\"@@") {
			var inner string
			if err := json.Unmarshal([]byte(line), &inner); err != nil {
				continue
			}
			if pre != nil && pre([]byte(inner[2:])) {
				continue
			}
			n++
			ch <- []byte(inner[2:])
			continue
		}
		if strings.HasPrefix(line, "@@") { // plain ndjson input (replay files)
			if pre != nil && pre([]byte(line[2:])) {
				continue
			}
			n++
			ch <- []byte(line[2:])
			continue
		}
		if passthru != nil {
			io.WriteString(passthru, line+"\n")
		}
	}
	close(ch)
	wg.Wait()
	return n
}

// Flag is one property verdict "false" attached to a case.
type Flag struct {
	Prop    string          `json:"prop"`
	Witness []string        `json:"witness"`
	KF      string          `json:"kf"` // name of the known-finding predicate that explains it, or ""
	Case    json.RawMessage `json:"case"`
	Obs     json.RawMessage `json:"obs,omitempty"`
	Gamma   int64           `json:"gamma"`
	Note    string          `json:"note,omitempty"`
}

// Result is what every replayer prints as its last stdout line.
type Result struct {
	Family      string            `json:"family"`
	Total       int64             `json:"total"`
	Agree       int64             `json:"agree"`
	Mismatch    int64             `json:"mismatch"`
	Nontrivial  int64             `json:"nontrivial"`
	Distinct    int64             `json:"distinct"`
	Infra       int64             `json:"infra"` // arena/setup failures: inconclusive, never a verdict
	Flags       []Flag            `json:"flags"`
	FlagCounts  map[string]int64  `json:"flag_counts"`
	Samples     []json.RawMessage `json:"samples"`
	MismatchLog string            `json:"mismatch_log"`
	Notes       []string          `json:"notes"`
	Extra       map[string]int64  `json:"extra"`
}

type Acc struct {
	mu   sync.Mutex
	R    Result
	seen map[string]bool
	mf   *os.File
	maxF int
}

func NewAcc(family, mismatchPath string) *Acc {
	a := &Acc{seen: map[string]bool{}, maxF: 200}
	a.R.Family = family
	a.R.FlagCounts = map[string]int64{}
	a.R.Extra = map[string]int64{}
	if mismatchPath != "" {
		f, err := os.Create(mismatchPath)
		if err == nil {
			a.mf = f
			a.R.MismatchLog = mismatchPath
		}
	}
	return a
}

func (a *Acc) Count(total, agree, nontrivial bool, key string) {
	a.mu.Lock()
	defer a.mu.Unlock()
	if total {
		a.R.Total++
	}
	if agree {
		a.R.Agree++
	}
	if nontrivial && key != "" && !a.seen[key] {
		a.seen[key] = true
		a.R.Nontrivial++
	}
}

func (a *Acc) Extra(k string, n int64) {
	a.mu.Lock()
	a.R.Extra[k] += n
	a.mu.Unlock()
}

func (a *Acc) Infra(note string) {
	a.mu.Lock()
	a.R.Infra++
	if len(a.R.Notes) < 20 {
		a.R.Notes = append(a.R.Notes, note)
	}
	a.mu.Unlock()
}

func (a *Acc) Sample(raw []byte, max int) {
	a.mu.Lock()
	if len(a.R.Samples) < max {
		a.R.Samples = append(a.R.Samples, append(json.RawMessage{}, raw...))
	}
	a.mu.Unlock()
}

func (a *Acc) Flag(f Flag) {
	a.mu.Lock()
	defer a.mu.Unlock()
	k := f.Prop + "|" + f.KF
	a.R.FlagCounts[k]++
	// keep the first few of every (property, finding) class, all unexplained ones up to a cap
	if a.R.FlagCounts[k] <= 5 || (f.KF == "" && len(a.R.Flags) < a.maxF) {
		a.R.Flags = append(a.R.Flags, f)
	}
}

// Mismatch records an observed outcome that differs from the model's
// prediction, for the TLA+ judge.
func (a *Acc) Mismatch(rec interface{}) {
	a.mu.Lock()
	defer a.mu.Unlock()
	a.R.Mismatch++
	if a.mf != nil && a.R.Mismatch <= 60000 {
		b, _ := json.Marshal(rec)
		a.mf.Write(append(b, '\n'))
	}
}

func (a *Acc) Finish(w io.Writer) {
	if a.mf != nil {
		a.mf.Close()
	}
	a.R.Distinct = int64(len(a.seen))
	b, _ := json.Marshal(a.R)
	io.WriteString(w, "@@RESULT "+string(b)+"\n")
}
