// Package arena is the trusted base between the abstract filesystem of
// spec/FS.tla and the real one: the concretisation gamma (abstract name tokens,
// modes, times and content ids to real strings, bits, timestamps and bytes) and
// the projection pi (Lstat/Readlink/content walk of a real directory back to
// abstract node records).
package arena

import (
	"bytes"
	"fmt"
	"math/rand"
	"os"
	"os/exec"
	"path/filepath"
	"sort"
	"strings"
	"syscall"
	"time"
)

type Node struct {
	K   string   `json:"k"`
	M   int      `json:"m"`
	T   int      `json:"t"`
	C   int      `json:"c"`
	Tgt []string `json:"tgt"`
}

type PN struct {
	P []string `json:"p"`
	N Node     `json:"n"`
}

const NOW = 99

// EPOCH is the abstract time of the Unix epoch itself (a header whose mtime field is zero).
const EPOCH = 900

var Base = time.Unix(1700000000, 0)

var fixedTokens = map[string]bool{"": true, ".": true, "..": true, ".git": true, ".terraform": true,
	"modules": true, " ": true, "..n": true, "..\\v": true, "s.n": true, ".terraformignore": true, "pax_global_header": true, "terraform-sources.json": true}

// Gamma maps abstract name tokens to real path segments.
// RuleFileC is the content id of a .terraformignore file; its text travels
// with the case.
const RuleFileC = 50

type Gamma struct {
	RuleText []byte // text of content id RuleFileC for this case
	Seed     int64
	names    map[string]string
	inv      map[string]string
}

var decorations = []func(r *rand.Rand, tok string) string{
	func(r *rand.Rand, t string) string { return t },
	func(r *rand.Rand, t string) string { return t + strings.Repeat("y", 110) }, // > 100 bytes: PAX/GNU long names
	func(r *rand.Rand, t string) string { return t + "é世" },                     // non-ASCII, NFC
	func(r *rand.Rand, t string) string { return t + " z" },                     // embedded space
	func(r *rand.Rand, t string) string { return t + "-" + fmt.Sprint(r.Intn(90)+10) },
	func(r *rand.Rand, t string) string { return t + ".tf" },
	func(r *rand.Rand, t string) string { return t + "+(x)" }, // regexp metacharacters
}

// NewGamma builds a table for the given tokens. prefixPairs lists <short,long>
// pairs that must remain string-prefix related; every other pair of distinct
// tokens must not become prefix related, and byte order must be preserved.
// Seed 0 is the identity table. A decoration is appended (never prepended), so
// order between tokens that differ before their end is preserved; the table is
// validated and offending tokens fall back to identity.
func NewGamma(seed int64, tokens []string, prefixPairs [][2]string, plainOnly bool) *Gamma {
	g := &Gamma{Seed: seed, names: map[string]string{}, inv: map[string]string{}}
	r := rand.New(rand.NewSource(seed))
	toks := append([]string{}, tokens...)
	sort.Strings(toks)
	pp := map[[2]string]bool{}
	longOf := map[string]string{}
	for _, p := range prefixPairs {
		pp[p] = true
		longOf[p[1]] = p[0]
	}
	inToks := map[string]bool{}
	for _, t := range toks {
		inToks[t] = true
	}
	for long, short := range longOf {
		// a prefix pair only binds when both of its names occur
		if !inToks[long] || !inToks[short] {
			delete(longOf, long)
		}
	}
	for _, t := range toks {
		if fixedTokens[t] || seed == 0 {
			g.names[t] = t
			continue
		}
		if _, isLong := longOf[t]; isLong {
			continue // assigned after its short partner
		}
		d := decorations[r.Intn(len(decorations))]
		if plainOnly {
			d = decorations[[]int{0, 4, 5}[r.Intn(3)]]
		}
		g.names[t] = d(r, t)
	}
	for long, short := range longOf {
		if seed == 0 {
			g.names[long] = long
		} else {
			g.names[long] = g.names[short] + strings.TrimPrefix(long, short)
		}
	}
	// validation: order, prefix relation, injectivity
	ok := func() (bool, string) {
		for i, a := range toks {
			for _, b := range toks[i+1:] {
				ra, rb := g.names[a], g.names[b]
				if (a < b) != (ra < rb) || ra == rb {
					return false, a
				}
				if strings.HasPrefix(rb, ra) != strings.HasPrefix(b, a) || strings.HasPrefix(ra, rb) != strings.HasPrefix(a, b) {
					return false, a
				}
			}
		}
		return true, ""
	}
	for n := 0; n < len(toks)+1; n++ {
		good, bad := ok()
		if good {
			break
		}
		// fall back to identity for the offending token and everything sharing its prefix
		for _, t := range toks {
			if strings.HasPrefix(t, bad) || strings.HasPrefix(bad, t) {
				g.names[t] = t
			}
		}
	}
	if good, bad := ok(); !good {
		panic("gamma table cannot preserve order/prefix relations at token " + bad)
	}
	for k, v := range g.names {
		g.inv[v] = k
	}
	return g
}

// SetName binds a token to a real name that is only known at run time (a
// temporary directory, a hash-named directory).
func (g *Gamma) SetName(tok, real string) {
	if old, ok := g.names[tok]; ok {
		delete(g.inv, old)
	}
	g.names[tok] = real
	g.inv[real] = tok
}

func (g *Gamma) Name(tok string) string {
	if v, ok := g.names[tok]; ok {
		return v
	}
	return tok
}

func (g *Gamma) Tok(name string) string {
	if v, ok := g.inv[name]; ok {
		return v
	}
	if fixedTokens[name] {
		return name
	}
	return "?" + name
}

// Rel renders a raw token list as a slash-separated string (relative or
// absolute as spelled; absolute ones are re-rooted at root).
func (g *Gamma) Spell(root string, toks []string) string {
	parts := make([]string, len(toks))
	for i, t := range toks {
		parts[i] = g.Name(t)
	}
	s := strings.Join(parts, "/")
	if len(toks) > 0 && toks[0] == "" && len(toks) > 1 {
		return root + s // "" + "/A/v" -> root/A/v
	}
	return s
}

// Abs renders a clean absolute abstract path under root.
func (g *Gamma) Abs(root string, p []string) string {
	parts := make([]string, 0, len(p)+1)
	parts = append(parts, root)
	for _, t := range p {
		parts = append(parts, g.Name(t))
	}
	return strings.Join(parts, "/")
}

// Unspell is the inverse of Spell for link targets read back from disk.
func (g *Gamma) Unspell(root, s string) []string {
	if strings.HasPrefix(s, root+"/") || s == root {
		rest := strings.TrimPrefix(s, root)
		parts := strings.Split(rest, "/") // leading "" kept
		for i := range parts {
			parts[i] = g.Tok(parts[i])
		}
		if rest == "" {
			return []string{"", ""}
		}
		return parts
	}
	parts := strings.Split(s, "/")
	for i := range parts {
		parts[i] = g.Tok(parts[i])
	}
	return parts
}

func ModeOf(m int) os.FileMode { return os.FileMode((m/100)<<6 | ((m/10)%10)<<3 | (m % 10)) }
func ModeBack(m os.FileMode) int {
	p := int(m.Perm())
	return (p>>6)*100 + ((p>>3)&7)*10 + (p & 7)
}

func Content(c int) []byte {
	if c <= 0 {
		return []byte{}
	}
	return bytes.Repeat([]byte{byte('a' + c%26)}, c*4)
}

func ContentBack(b []byte) int {
	if len(b) == 0 {
		return 0
	}
	if len(b)%4 != 0 {
		return -1
	}
	c := len(b) / 4
	for _, x := range b {
		if x != byte('a'+c%26) {
			return -1
		}
	}
	return c
}

// TimeOf: t < 1000 is whole seconds after Base; t >= 1000 encodes
// sec*10 + tenths as 1000 + sec*10 + tenths (fractional mtimes for Pack).
func TimeOf(t int) time.Time {
	if t == EPOCH {
		return time.Unix(0, 0)
	}
	if t >= 1000 {
		x := t - 1000
		return Base.Add(time.Duration(x/10)*time.Second + time.Duration(x%10)*100*time.Millisecond)
	}
	return Base.Add(time.Duration(t) * time.Second)
}
func (g *Gamma) ContentBack(b []byte) int {
	if g.RuleText != nil && len(b) > 0 && bytes.Equal(b, g.RuleText) {
		return RuleFileC
	}
	return ContentBack(b)
}

func TimeBack(mt time.Time) int {
	if mt.Unix() == 0 && mt.Nanosecond() == 0 {
		return EPOCH
	}
	d := mt.Sub(Base)
	if d >= 0 && d < 90*time.Second && mt.Nanosecond() == 0 {
		return int(d / time.Second)
	}
	if d >= 0 && d < 90*time.Second && mt.Nanosecond()%100000000 == 0 {
		return 1000 + int(d/time.Second)*10 + mt.Nanosecond()/100000000
	}
	return NOW
}

// Setup materialises an abstract filesystem under root (root itself is the
// abstract root <<>> and must exist and be empty).
func (g *Gamma) Setup(root string, fs []PN) error {
	nodes := append([]PN{}, fs...)
	sort.Slice(nodes, func(i, j int) bool { return len(nodes[i].P) < len(nodes[j].P) })
	for _, pn := range nodes {
		if len(pn.P) == 0 {
			continue
		}
		p := g.Abs(root, pn.P)
		var err error
		switch pn.N.K {
		case "d":
			err = os.Mkdir(p, 0755)
		case "f":
			if pn.N.C == RuleFileC {
				err = os.WriteFile(p, g.RuleText, 0644)
			} else {
				err = os.WriteFile(p, Content(pn.N.C), 0644)
			}
		case "l":
			err = os.Symlink(g.Spell(root, pn.N.Tgt), p)
		case "p":
			err = syscall.Mkfifo(p, 0644)
		default:
			err = fmt.Errorf("unknown kind %q", pn.N.K)
		}
		if err != nil {
			return err
		}
	}
	// metadata deepest first so directory mtimes stick
	sort.SliceStable(nodes, func(i, j int) bool { return len(nodes[i].P) > len(nodes[j].P) })
	for _, pn := range nodes {
		if len(pn.P) == 0 || pn.N.K == "l" {
			continue
		}
		p := g.Abs(root, pn.P)
		if err := os.Chmod(p, ModeOf(pn.N.M)); err != nil {
			return err
		}
		if pn.N.T != NOW {
			if err := os.Chtimes(p, TimeOf(pn.N.T), TimeOf(pn.N.T)); err != nil {
				return err
			}
		}
	}
	return nil
}

// Snapshot projects the real tree under root to abstract node records keyed by
// the slash-joined abstract path ("" is never reported: the root itself is
// outside the model).
func (g *Gamma) Snapshot(root string) map[string]Node {
	out := map[string]Node{}
	var walk func(dir string, ap []string)
	walk = func(dir string, ap []string) {
		ents, err := os.ReadDir(dir)
		if err != nil {
			return
		}
		for _, de := range ents {
			p := dir + "/" + de.Name()
			fi, err := os.Lstat(p)
			if err != nil {
				continue
			}
			q := append(append([]string{}, ap...), g.Tok(de.Name()))
			n := Node{M: ModeBack(fi.Mode()), T: TimeBack(fi.ModTime()), Tgt: []string{}}
			switch {
			case fi.Mode()&os.ModeSymlink != 0:
				n.K, n.M, n.T = "l", 777, NOW
				t, _ := os.Readlink(p)
				n.Tgt = g.Unspell(root, t)
			case fi.IsDir():
				n.K = "d"
			case fi.Mode()&os.ModeNamedPipe != 0:
				n.K = "p"
			case fi.Mode().IsRegular():
				n.K = "f"
				b, err := os.ReadFile(p)
				if err != nil {
					n.C = -2
				} else {
					n.C = g.ContentBack(b)
				}
			default:
				n.K = "?"
			}
			out[strings.Join(q, "/")] = n
			if n.K == "d" {
				walk(p, q)
			}
		}
	}
	walk(root, nil)
	return out
}

func SnapshotList(m map[string]Node) []PN {
	keys := make([]string, 0, len(m))
	for k := range m {
		keys = append(keys, k)
	}
	sort.Strings(keys)
	out := make([]PN, 0, len(keys))
	for _, k := range keys {
		out = append(out, PN{P: strings.Split(k, "/"), N: m[k]})
	}
	return out
}

func FromList(l []PN) map[string]Node {
	m := map[string]Node{}
	for _, pn := range l {
		if len(pn.P) == 0 {
			continue
		}
		n := pn.N
		if n.Tgt == nil {
			n.Tgt = []string{}
		}
		m[strings.Join(pn.P, "/")] = n
	}
	return m
}

func NodeEq(a, b Node) bool {
	if a.K != b.K || a.M != b.M || a.T != b.T || a.C != b.C || len(a.Tgt) != len(b.Tgt) {
		return false
	}
	for i := range a.Tgt {
		if a.Tgt[i] != b.Tgt[i] {
			return false
		}
	}
	return true
}

func SameFS(a, b map[string]Node) bool {
	if len(a) != len(b) {
		return false
	}
	for k, v := range a {
		w, ok := b[k]
		if !ok || !NodeEq(v, w) {
			return false
		}
	}
	return true
}

// Diff lists the paths at which two projections differ (for reports).
func Diff(pred, obs map[string]Node) []string {
	var out []string
	for k, v := range pred {
		if w, ok := obs[k]; !ok {
			out = append(out, fmt.Sprintf("%s: pred=%v obs=absent", k, v))
		} else if !NodeEq(v, w) {
			out = append(out, fmt.Sprintf("%s: pred=%v obs=%v", k, v, w))
		}
	}
	for k, w := range obs {
		if _, ok := pred[k]; !ok {
			out = append(out, fmt.Sprintf("%s: pred=absent obs=%v", k, w))
		}
	}
	sort.Strings(out)
	return out
}

// ScratchBase picks the directory arenas live in: /dev/shm when usable,
// otherwise $TMPDIR.
func ScratchBase() string {
	if v := os.Getenv("VERIF_ARENA"); v != "" {
		return v
	}
	if fi, err := os.Stat("/dev/shm"); err == nil && fi.IsDir() {
		if d, err := os.MkdirTemp("/dev/shm", ".probe"); err == nil {
			os.Remove(d)
			return "/dev/shm"
		}
	}
	return os.TempDir()
}

// RemoveAll that copes with read-only directories.
func RemoveAll(p string) {
	filepath.Walk(p, func(q string, fi os.FileInfo, err error) error {
		if err == nil && fi.IsDir() {
			os.Chmod(q, 0755)
		}
		return nil
	})
	if err := os.RemoveAll(p); err != nil {
		// trees nested deeper than the descriptor limit (a hostile archive can name thousands of levels)
		exec.Command("rm", "-rf", p).Run()
	}
}
