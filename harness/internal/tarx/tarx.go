// Package tarx writes tar blocks by hand. archive/tar.Writer refuses the
// hostile headers the Unpack checks need (names ending in "/" on regular
// files, "..", named global PAX headers, absolute names), so headers are
// assembled as raw 512-byte blocks with a computed checksum.
package tarx

import (
	"bytes"
	"compress/gzip"
	"fmt"
	"io"
)

type Format int

const (
	USTAR Format = iota
	PAX
	GNU
)

type Entry struct {
	Name  string
	Type  byte // '0' file, '5' dir, '2' symlink, '6' fifo, '1' hardlink, 'g' pax global
	Mode  int64
	Size  int64
	Mtime int64 // seconds
	Nsec  int64 // only representable in PAX
	Link  string
	Body  []byte
}

func rawHeader(name string, mode, size, mtime int64, typ byte, link string, gnu bool) []byte {
	b := make([]byte, 512)
	copy(b[0:100], name)
	copy(b[100:108], fmt.Sprintf("%07o\x00", mode&07777))
	copy(b[108:116], "0000000\x00")
	copy(b[116:124], "0000000\x00")
	copy(b[124:136], fmt.Sprintf("%011o\x00", size))
	if mtime < 0 {
		mtime = 0
	}
	copy(b[136:148], fmt.Sprintf("%011o\x00", mtime))
	copy(b[148:156], "        ")
	b[156] = typ
	copy(b[157:257], link)
	if gnu {
		copy(b[257:265], "ustar  \x00")
	} else {
		copy(b[257:263], "ustar\x00")
		copy(b[263:265], "00")
	}
	sum := 0
	for _, c := range b {
		sum += int(c)
	}
	copy(b[148:156], fmt.Sprintf("%06o\x00 ", sum))
	return b
}

// ExtHeader renders an extension entry (PAX 'x'/'g', GNU 'L'/'K') with the given body, padded.
func ExtHeader(typ byte, name string, body []byte, declaredSize int64) []byte {
	var out bytes.Buffer
	out.Write(rawHeader(name, 0644, declaredSize, 0, typ, "", typ == 'L' || typ == 'K'))
	out.Write(body)
	out.Write(pad(len(body)))
	return out.Bytes()
}

// FixChecksum recomputes the checksum of the 512-byte header block at off.
func FixChecksum(tb []byte, off int) {
	b := tb[off : off+512]
	copy(b[148:156], "        ")
	sum := 0
	for _, c := range b {
		sum += int(c)
	}
	copy(b[148:156], fmt.Sprintf("%06o\x00 ", sum))
}

func pad(n int) []byte { return make([]byte, (512-n%512)%512) }

func PaxRecord(k, v string) string {
	// "<len> k=v\n" where len counts itself
	base := len(k) + len(v) + 3
	n := base + len(fmt.Sprint(base))
	if len(fmt.Sprint(n)) != len(fmt.Sprint(base)) {
		n = base + len(fmt.Sprint(n))
	}
	return fmt.Sprintf("%d %s=%s\n", n, k, v)
}

func isASCII(s string) bool {
	for i := 0; i < len(s); i++ {
		if s[i] >= 0x80 {
			return false
		}
	}
	return true
}

// Region describes which tar region a range of *uncompressed* bytes belongs to.
type Region struct {
	Entry int    // index of the entry (len(entries) for the trailer)
	Kind  string // "hdr" | "body" | "end"
	Off   int    // start offset in the tar stream
	Len   int
}

// Tar renders the entries. Names that do not fit USTAR force the extended
// mechanism of the chosen format (PAX 'x' header or GNU 'L'/'K' entries).
func Tar(entries []Entry, f Format) ([]byte, []Region) {
	var out bytes.Buffer
	var regions []Region
	for i, e := range entries {
		start := out.Len()
		size := e.Size
		if e.Body != nil {
			size = int64(len(e.Body))
		}
		name, link := e.Name, e.Link
		needExt := len(name) > 100 || len(link) > 100 || !isASCII(name) || !isASCII(link)
		switch {
		case f == PAX && (needExt || e.Nsec != 0) && e.Type != 'g':
			recs := ""
			if len(name) > 100 || !isASCII(name) {
				recs += PaxRecord("path", name)
			}
			if len(link) > 100 || !isASCII(link) {
				recs += PaxRecord("linkpath", link)
			}
			if e.Nsec != 0 {
				recs += PaxRecord("mtime", fmt.Sprintf("%d.%09d", e.Mtime, e.Nsec))
			}
			out.Write(rawHeader("PaxHeaders.0/x", 0644, int64(len(recs)), e.Mtime, 'x', "", false))
			out.WriteString(recs)
			out.Write(pad(len(recs)))
		case f == GNU && needExt:
			if len(name) > 100 || !isASCII(name) {
				out.Write(rawHeader("././@LongLink", 0644, int64(len(name)+1), 0, 'L', "", true))
				out.WriteString(name + "\x00")
				out.Write(pad(len(name) + 1))
			}
			if len(link) > 100 || !isASCII(link) {
				out.Write(rawHeader("././@LongLink", 0644, int64(len(link)+1), 0, 'K', "", true))
				out.WriteString(link + "\x00")
				out.Write(pad(len(link) + 1))
			}
		}
		tn, tl := name, link
		if len(tn) > 100 {
			tn = tn[:100]
		}
		if len(tl) > 100 {
			tl = tl[:100]
		}
		out.Write(rawHeader(tn, e.Mode, size, e.Mtime, e.Type, tl, f == GNU))
		regions = append(regions, Region{i, "hdr", start, out.Len() - start})
		if size > 0 {
			bs := out.Len()
			body := e.Body
			if body == nil {
				body = bytes.Repeat([]byte{'x'}, int(size))
			}
			out.Write(body)
			out.Write(pad(len(body)))
			regions = append(regions, Region{i, "body", bs, out.Len() - bs})
		}
	}
	es := out.Len()
	out.Write(make([]byte, 1024))
	regions = append(regions, Region{len(entries), "end", es, 1024})
	return out.Bytes(), regions
}

// Gzip compresses with stored blocks only, flushing at the given uncompressed
// offsets so that compressed offsets map back to tar regions. It returns the
// stream and, for each flush offset, the compressed length at that point.
func Gzip(tarBytes []byte, flushAt []int) ([]byte, []int) {
	var buf bytes.Buffer
	gz, _ := gzip.NewWriterLevel(&buf, gzip.NoCompression)
	marks := make([]int, 0, len(flushAt))
	prev := 0
	for _, off := range flushAt {
		if off > len(tarBytes) {
			off = len(tarBytes)
		}
		gz.Write(tarBytes[prev:off])
		gz.Flush()
		marks = append(marks, buf.Len())
		prev = off
	}
	gz.Write(tarBytes[prev:])
	gz.Close()
	return buf.Bytes(), marks
}

// GzipPlain compresses at the default level (what real producers emit).
func GzipPlain(tarBytes []byte) []byte {
	var buf bytes.Buffer
	gz := gzip.NewWriter(&buf)
	gz.Write(tarBytes)
	gz.Close()
	return buf.Bytes()
}

// FaultReader returns err after n bytes (n < 0: never). With Truncate it
// returns io.EOF instead of err.
type FaultReader struct {
	R        io.Reader
	N        int
	Err      error
	Truncate bool
	read     int
}

func (f *FaultReader) Read(p []byte) (int, error) {
	if f.N >= 0 && f.read >= f.N {
		if f.Truncate {
			return 0, io.EOF
		}
		return 0, f.Err
	}
	if f.N >= 0 && len(p) > f.N-f.read {
		p = p[:f.N-f.read]
	}
	n, err := f.R.Read(p)
	f.read += n
	return n, err
}

// FaultWriter fails after n bytes have been accepted.
type FaultWriter struct {
	W       io.Writer
	N       int
	Err     error
	Written int
	Failed  bool
}

func (f *FaultWriter) Write(p []byte) (int, error) {
	if f.N >= 0 && f.Written+len(p) > f.N {
		k := f.N - f.Written
		if k > 0 {
			f.W.Write(p[:k])
			f.Written += k
		}
		f.Failed = true
		return k, f.Err
	}
	n, err := f.W.Write(p)
	f.Written += n
	return n, err
}
