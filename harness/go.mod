module verifh

go 1.21

require (
	github.com/apparentlymart/go-versions v1.0.1
	github.com/hashicorp/go-slug v0.0.0
	github.com/hashicorp/terraform-registry-address v0.2.0
	github.com/hashicorp/terraform-svchost v0.0.1
)

require (
	golang.org/x/mod v0.10.0 // indirect
	golang.org/x/net v0.17.0 // indirect
	golang.org/x/text v0.13.0 // indirect
)

replace github.com/hashicorp/go-slug => /repo
