package main

import (
	"encoding/json"
	"fmt"
	"net/url"
	"os"
	"sort"
	"strings"
	"sync"

	"github.com/apparentlymart/go-versions/versions"
	"github.com/hashicorp/go-slug/sourceaddrs"

	"verifh/internal/cases"
)

func init() { families["addr"] = addrMain }

type aExpect struct {
	OK  bool   `json:"ok"`
	Str string `json:"str"`
}

type aRec struct {
	Kind     string   `json:"kind"`
	Type     string   `json:"type"`
	Scheme   string   `json:"scheme"`
	User     bool     `json:"user"`
	QKeys    []string `json:"qkeys"`
	QMulti   []string `json:"qmultikeys"`
	Archive  string   `json:"archive"`
	ArchPath bool     `json:"archpath"`
	Sub      []string `json:"sub"`
}

type aParts struct {
	Type string `json:"type"`
	URL  string `json:"url"`
	Sub  string `json:"sub"`
}

type aCase struct {
	Fam    string          `json:"fam"`
	Op     string          `json:"op"`
	Route  string          `json:"route,omitempty"`
	S      string          `json:"s,omitempty"`
	A      string          `json:"a,omitempty"`
	B      string          `json:"b,omitempty"`
	C      string          `json:"c,omitempty"`
	Final  bool            `json:"final,omitempty"`
	Kind   string          `json:"kind,omitempty"`
	Expect json.RawMessage `json:"expect"`
	Rec    *aRec           `json:"rec,omitempty"`
	KF06   string          `json:"kf06,omitempty"`
	Parts  *aParts         `json:"parts,omitempty"`
}

type aLaws struct {
	ReparseOK    bool   `json:"reparse_ok"`
	ReparseEqual bool   `json:"reparse_equal"`
	PrintIdem    bool   `json:"print_idem"`
	SameKind     bool   `json:"same_kind"`
	Derived      bool   `json:"derived_ok"` // package / versioned / sub-path round trips
	PairsOK      bool   `json:"pairs_ok"`   // equal prints => equal values (across the run)
	Detail       string `json:"detail"`
}

type aObs struct {
	Case   *aCase `json:"case"`
	OK     bool   `json:"ok"`   // accepted / resolved
	Str    string `json:"str"`  // print of the result
	Kind   string `json:"kind"` // local | remote | registry | final
	Rec    *aRec  `json:"rec,omitempty"`
	Laws   aLaws  `json:"laws"`
	MakeOK bool   `json:"make_ok"` // MakeRemoteSource from parts accepted
	MkRec  *aRec  `json:"make_rec,omitempty"`
	MkLaws aLaws  `json:"make_laws"` // the print/parse laws on the value MakeRemoteSource returned
	Err    string `json:"err"`
	Panic  string `json:"panic"`
}

func kindOf(v interface{}) string {
	switch v.(type) {
	case sourceaddrs.LocalSource:
		return "local"
	case sourceaddrs.RemoteSource:
		return "remote"
	case sourceaddrs.RegistrySource:
		return "registry"
	case sourceaddrs.RegistrySourceFinal:
		return "final"
	}
	return fmt.Sprintf("%T", v)
}

func recOf(r sourceaddrs.RemoteSource) *aRec {
	u := r.Package().URL()
	q := u.Query()
	if strings.Contains(u.RawQuery, ";") {
		// url.Values leaves out every pair that contains ';'; a transport that splits at '&' and ';' sees them all,
		// so the arguments are read from the text of the query instead
		q = url.Values{}
		for _, part := range strings.FieldsFunc(u.RawQuery, func(r rune) bool { return r == '&' || r == ';' }) {
			k, v, _ := strings.Cut(part, "=")
			if k1, err := url.QueryUnescape(k); err == nil {
				k = k1
			}
			if v1, err := url.QueryUnescape(v); err == nil {
				v = v1
			}
			q[k] = append(q[k], v)
		}
	}
	rec := &aRec{Kind: "remote", Type: r.Package().SourceType(), Scheme: u.Scheme, User: u.User != nil,
		QKeys: []string{}, QMulti: []string{}, Archive: q.Get("archive"), Sub: []string{}}
	for k, vs := range q {
		rec.QKeys = append(rec.QKeys, k)
		if len(vs) > 1 {
			rec.QMulti = append(rec.QMulti, k)
		}
	}
	sort.Strings(rec.QKeys)
	sort.Strings(rec.QMulti)
	p := u.EscapedPath()
	rec.ArchPath = strings.HasSuffix(p, ".tar.gz") || strings.HasSuffix(p, ".tgz")
	if r.SubPath() != "" {
		rec.Sub = strings.Split(r.SubPath(), "/")
	}
	return rec
}

var (
	pairMu   sync.Mutex
	pairSeen = map[string]interface{}{}
)

func pairsOK(s string, v interface{}) bool {
	pairMu.Lock()
	defer pairMu.Unlock()
	if w, ok := pairSeen[s]; ok {
		return w == v
	}
	pairSeen[s] = v
	return true
}

// lawsOf runs the print/parse laws of C06 on a value the library handed out.
func lawsOf(v interface{}, final bool) aLaws {
	l := aLaws{Derived: true}
	var s1 string
	switch x := v.(type) {
	case sourceaddrs.Source:
		s1 = x.String()
	case sourceaddrs.FinalSource:
		s1 = x.String()
	}
	var v2 interface{}
	var err error
	if _, isFinal := v.(sourceaddrs.RegistrySourceFinal); isFinal || final {
		v2, err = sourceaddrs.ParseFinalSource(s1)
	} else {
		v2, err = sourceaddrs.ParseSource(s1)
	}
	l.ReparseOK = err == nil
	if err != nil {
		l.Detail = "reparse of " + s1 + ": " + err.Error()
		l.PairsOK = true
		return l
	}
	l.ReparseEqual = v2 == v
	l.SameKind = kindOf(v2) == kindOf(v)
	var s2 string
	switch x := v2.(type) {
	case sourceaddrs.Source:
		s2 = x.String()
	case sourceaddrs.FinalSource:
		s2 = x.String()
	}
	l.PrintIdem = s1 == s2
	if !l.ReparseEqual || !l.PrintIdem {
		l.Detail = fmt.Sprintf("print %q reparsed prints %q", s1, s2)
	}
	l.PairsOK = pairsOK(kindOf(v)+"|"+s1, v)
	// derived values
	switch x := v.(type) {
	case sourceaddrs.RemoteSource:
		pkg := x.Package()
		p2, err := sourceaddrs.ParseRemotePackage(pkg.String())
		if err != nil || p2 != pkg {
			l.Derived = false
			l.Detail += fmt.Sprintf("; package %q does not parse back (%v)", pkg.String(), err)
		}
		if pkg.SourceAddr(x.SubPath()) != x {
			l.Derived = false
			l.Detail += "; Package().SourceAddr(SubPath()) differs"
		}
		if x.SubPath() != "" && !sourceaddrs.ValidSubPath(x.SubPath()) {
			l.Derived = false
			l.Detail += "; ValidSubPath rejects the sub-path of an accepted address"
		}
	case sourceaddrs.RegistrySource:
		ver := versions.MustParseVersion("1.2.3-beta.1+build.5")
		f := x.Versioned(ver)
		f2, err := sourceaddrs.ParseFinalSource(f.String())
		if err != nil || f2 != sourceaddrs.FinalSource(f) || f.Unversioned() != x {
			l.Derived = false
			l.Detail += fmt.Sprintf("; versioned %q does not parse back (%v)", f.String(), err)
		}
		p2, err := sourceaddrs.ParseRegistryPackage(x.Package().String())
		if err != nil || p2 != x.Package() {
			l.Derived = false
			l.Detail += "; registry package does not parse back"
		}
	}
	return l
}

func parseAny(s string, final bool) (interface{}, error) {
	if final {
		v, err := sourceaddrs.ParseFinalSource(s)
		return v, err
	}
	v, err := sourceaddrs.ParseSource(s)
	return v, err
}

func resolve(a, b interface{}, final bool) (interface{}, error) {
	if final {
		return sourceaddrs.ResolveRelativeFinalSource(a.(sourceaddrs.FinalSource), b.(sourceaddrs.FinalSource))
	}
	return sourceaddrs.ResolveRelativeSource(a.(sourceaddrs.Source), b.(sourceaddrs.Source))
}

func strOf(v interface{}) string {
	switch x := v.(type) {
	case sourceaddrs.Source:
		return x.String()
	case sourceaddrs.FinalSource:
		return x.String()
	}
	return ""
}

func fixRec(r *aRec) {
	if r == nil {
		return
	}
	if r.QKeys == nil {
		r.QKeys = []string{}
	}
	if r.QMulti == nil {
		r.QMulti = []string{}
	}
	if r.Sub == nil {
		r.Sub = []string{}
	}
}

func runAddr(c *aCase) (obs *aObs) {
	fixRec(c.Rec)
	obs = &aObs{Case: c, Rec: &aRec{Kind: "none", QKeys: []string{}, QMulti: []string{}, Sub: []string{}},
		MkRec: &aRec{Kind: "none", QKeys: []string{}, QMulti: []string{}, Sub: []string{}}, Laws: aLaws{ReparseOK: true, ReparseEqual: true, PrintIdem: true, SameKind: true, Derived: true, PairsOK: true},
		MkLaws: aLaws{ReparseOK: true, ReparseEqual: true, PrintIdem: true, SameKind: true, Derived: true, PairsOK: true}}
	defer func() {
		if r := recover(); r != nil {
			obs.Panic = fmt.Sprint(r)
			obs.OK = false
		}
	}()
	switch c.Op {
	case "parse":
		c.S = strings.ReplaceAll(c.S, "unihost", "\u00fcn\u00efhost") // a host name outside ASCII
		v, err := parseAny(c.S, c.Route == "final")
		if err != nil {
			obs.Err = err.Error()
		} else {
			obs.OK = true
			obs.Str = strOf(v)
			obs.Kind = kindOf(v)
			if r, ok := v.(sourceaddrs.RemoteSource); ok {
				obs.Rec = recOf(r)
			}
			obs.Laws = lawsOf(v, c.Route == "final")
		}
		if c.Parts != nil {
			if u, uerr := url.Parse(c.Parts.URL); uerr == nil {
				t := c.Parts.Type
				if t == "none" {
					t = strings.ToLower(u.Scheme)
				}
				u.Scheme = strings.ToLower(u.Scheme)
				if r, merr := sourceaddrs.MakeRemoteSource(t, u, c.Parts.Sub); merr == nil {
					obs.MakeOK = true
					obs.MkRec = recOf(r)
					obs.MkLaws = lawsOf(r, false)
				}
			}
		}
	case "resolve", "compose":
		a, err := parseAny(c.A, c.Final)
		if err != nil {
			obs.Err = "base does not parse: " + err.Error()
			obs.Kind = "unparsed-base"
			return
		}
		b, err := parseAny(c.B, c.Final)
		if err != nil {
			obs.Err = "second argument does not parse: " + err.Error()
			obs.Kind = "unparsed-rel"
			return
		}
		r, err := resolve(a, b, c.Final)
		if c.Op == "compose" && err == nil {
			cc, perr := parseAny(c.C, c.Final)
			if perr != nil {
				obs.Err = "third argument does not parse: " + perr.Error()
				obs.Kind = "unparsed-rel"
				return
			}
			r2, err2 := resolve(r, cc, c.Final)
			// the other association: a + (b + c)
			bc, err3 := resolve(b, cc, c.Final)
			var alt interface{}
			var err4 error
			if err3 == nil {
				alt, err4 = resolve(a, bc, c.Final)
			}
			r, err = r2, err2
			if err3 != nil || (err2 == nil) != (err4 == nil) || (err2 == nil && r2 != alt) {
				obs.Laws.Derived = false
				obs.Laws.Detail = fmt.Sprintf("(a+b)+c = %v (%v) but a+(b+c) = %v (%v)", strOf(r2), err2, strOf(alt), err4)
			}
		}
		if err != nil {
			obs.Err = err.Error()
			return
		}
		obs.OK = true
		obs.Str = strOf(r)
		obs.Kind = kindOf(r)
		l := lawsOf(r, c.Final)
		if !obs.Laws.Derived {
			l.Derived = false
			l.Detail = obs.Laws.Detail + "; " + l.Detail
		}
		obs.Laws = l
	case "join":
		reg, err := sourceaddrs.ParseRegistrySource(c.A)
		if err != nil {
			obs.Err = err.Error()
			obs.Kind = "unparsed-base"
			return
		}
		real, err := sourceaddrs.ParseRemoteSource(c.B)
		if err != nil {
			obs.Err = err.Error()
			obs.Kind = "unparsed-base"
			return
		}
		r := reg.FinalSourceAddr(real)
		obs.OK = true
		obs.Str = r.String()
		obs.Kind = "registry" // the case's kind: the base of the join
		obs.Laws = lawsOf(r, false)
		// the versioned route must give the same answer
		if reg.Versioned(versions.MustParseVersion("1.0.0")).FinalSourceAddr(real) != r {
			obs.Laws.Derived = false
			obs.Laws.Detail += "; versioned FinalSourceAddr differs"
		}
	}
	return obs
}

func recEq(a, b *aRec) bool {
	if a == nil || b == nil {
		return a == b
	}
	if a.Kind != b.Kind || a.Type != b.Type || a.Scheme != b.Scheme || a.User != b.User || strings.Join(a.QMulti, ",") != strings.Join(b.QMulti, ",") ||
		a.Archive != b.Archive || a.ArchPath != b.ArchPath {
		return false
	}
	x, y := append([]string{}, a.QKeys...), append([]string{}, b.QKeys...)
	sort.Strings(x)
	sort.Strings(y)
	return strings.Join(x, ",") == strings.Join(y, ",") && strings.Join(a.Sub, "/") == strings.Join(b.Sub, "/")
}

func addrMain() int {
	props := strings.Split(*flagProps, ",")
	want := map[string]bool{}
	for _, p := range props {
		want[p] = true
	}
	acc := cases.NewAcc("addr", *flagMis)
	cases.Lines(os.Stdin, os.Stderr, *flagWorkers, nil, func(w int, raw []byte) {
		var c aCase
		if err := json.Unmarshal(raw, &c); err != nil || c.Fam != "addr" {
			return
		}
		obs := runAddr(&c)
		if strings.HasPrefix(obs.Kind, "unparsed-base") {
			acc.Infra("generated base address does not parse: " + obs.Err + " in " + string(raw))
			return
		}
		agree := obs.Panic == ""
		lawsOK := obs.Laws.ReparseOK && obs.Laws.ReparseEqual && obs.Laws.PrintIdem && obs.Laws.SameKind && obs.Laws.Derived && obs.Laws.PairsOK &&
			obs.MkLaws.ReparseOK && obs.MkLaws.ReparseEqual && obs.MkLaws.PrintIdem && obs.MkLaws.SameKind && obs.MkLaws.Derived && obs.MkLaws.PairsOK
		switch c.Op {
		case "parse":
			var e string
			json.Unmarshal(c.Expect, &e)
			if (e == "accept" && !obs.OK) || (e == "reject" && obs.OK) {
				agree = false
			}
			// the accessor record must be the predicted one whenever the model predicts it
			if obs.OK && c.Rec != nil && c.Rec.Kind == "remote" && e == "accept" && !recEq(c.Rec, obs.Rec) {
				agree = false
			}
			// accepted although no prediction was made: the policy must be judged on what was observed
			if obs.OK && obs.Rec.Kind == "remote" && e != "accept" {
				agree = false
			}
			if obs.MakeOK && (e != "accept" || !recEq(c.Rec, obs.MkRec)) {
				agree = false
			}
			if !want["C07"] && obs.Panic == "" {
				agree = true
			}
		default:
			var e aExpect
			json.Unmarshal(c.Expect, &e)
			if obs.Kind == "unparsed-rel" {
				// the relative argument is not a canonical local address: nothing to resolve
				return
			}
			if want["C11"] && (e.OK != obs.OK || (e.OK && e.Str != obs.Str)) {
				agree = false
			}
		}
		if want["C06"] && !lawsOK {
			agree = false
		}
		acc.Count(true, agree, obs.OK, string(raw))
		acc.Sample(raw, 4)
		if obs.OK {
			acc.Extra("accepted", 1)
		}
		if !agree {
			acc.Mismatch(obs)
		}
	})
	acc.Finish(os.Stdout)
	return 0
}
