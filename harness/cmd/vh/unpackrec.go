package main

import (
	"archive/tar"
	"bufio"
	"bytes"
	"encoding/json"
	"fmt"
	"math/rand"
	"os"
	"sync"

	slug "github.com/hashicorp/go-slug"

	"verifh/internal/arena"
	"verifh/internal/cases"
	"verifh/internal/tarx"
)

func init() { families["unpackrec"] = unpackRecMain }

// direction B: record traces of the real Unpack on random archives that are
// longer and wider than the model's exhaustive bound.

type recEvent struct {
	Ev   string     `json:"ev"`
	Tr   int        `json:"tr"`
	I    int        `json:"i,omitempty"`
	Hist []uEntry   `json:"hist,omitempty"`
	Fs   []arena.PN `json:"fs,omitempty"`
	St   string     `json:"st,omitempty"`
}

var (
	recMu    sync.Mutex
	recHooks = map[string]func(h *tar.Header){}
)

func randTokens(r *rand.Rand, pool []string, maxLen int) []string {
	n := 1 + r.Intn(maxLen)
	out := make([]string, n)
	for i := range out {
		out[i] = pool[r.Intn(len(pool))]
	}
	return out
}

func randEntry(r *rand.Rand) uEntry {
	names := []string{"a", "b", "s", "u", "x", "a", "s", "..", ".", ""}
	plain := []string{"a", "b", "s", "u", "x"}
	e := uEntry{M: []int{644, 444, 755, 555, 700, 600}[r.Intn(6)], T: 2 + r.Intn(4), Tgt: []string{}}
	if r.Intn(3) == 0 {
		e.Name = randTokens(r, names, 4)
	} else {
		e.Name = randTokens(r, plain, 3)
	}
	if r.Intn(8) == 0 {
		e.Name = append([]string{""}, e.Name...)
	}
	switch k := r.Intn(10); {
	case k < 4:
		e.K = "f"
		e.C = 1 + r.Intn(3)
	case k < 6:
		e.K = "d"
		if r.Intn(2) == 0 {
			e.Name = append(e.Name, "")
		}
	case k < 9:
		e.K = "l"
		e.M = 777
		tg := [][]string{{"b"}, {".."}, {"..", "dx"}, {"s", "u", "..", "v"}, {"s", "u", "..", "w"}, {"", "A", "v"}, {"s"}, {"", "A", "d", "a"},
			{"..", "..", "w"}, {"a", "..", "..", "w"}, {"."}, {"u", ".."}, {"..", "a"}, {"x"}, {"..", "d", "a"}}
		e.Tgt = tg[r.Intn(len(tg))]
	default:
		e.K = []string{"g", "p", "h"}[r.Intn(3)]
		e.Name = []string{"a"}
	}
	return e
}

func unpackRecMain() int {
	n := *flagN
	if n <= 0 {
		n = 500
	}
	seed := seedEnv()
	base, err := os.MkdirTemp(arena.ScratchBase(), "vh-unpackrec-")
	if err != nil {
		fmt.Fprintln(os.Stderr, err)
		return 2
	}
	defer arena.RemoveAll(base)
	var hdr *uHeader
	pre := func(raw []byte) bool {
		var h uHeader
		if json.Unmarshal(raw, &h) == nil && h.Fam == "unpack-h" {
			hdr = &h
			return true
		}
		return false
	}
	cases.Lines(os.Stdin, os.Stderr, 1, pre, func(w int, raw []byte) {})
	if hdr == nil {
		fmt.Fprintln(os.Stderr, "no header record")
		return 2
	}
	slug.VerifEntryBoundary = func(dst string, h *tar.Header) {
		recMu.Lock()
		f := recHooks[dst]
		recMu.Unlock()
		if f != nil {
			f(h)
		}
	}
	out, err := os.Create(*flagOut)
	if err != nil {
		fmt.Fprintln(os.Stderr, err)
		return 2
	}
	defer out.Close()
	bw := bufio.NewWriterSize(out, 1<<20)
	defer bw.Flush()
	var outMu sync.Mutex
	toks, pp := unpackTokens(hdr)
	type job struct{ tr int }
	jobs := make(chan job, 64)
	var wg sync.WaitGroup
	infra := 0
	for w := 0; w < *flagWorkers; w++ {
		wg.Add(1)
		go func(w int) {
			defer wg.Done()
			for j := range jobs {
				r := rand.New(rand.NewSource(seed*1000003 + int64(j.tr)))
				g := arena.NewGamma(int64(j.tr%3), toks, pp, false)
				ln := 3 + r.Intn(10)
				hist := make([]uEntry, ln)
				benign := r.Intn(10) < 6 // most traces are mostly well-formed so that they get long
				for i := range hist {
					hist[i] = randEntry(r)
					if benign && r.Intn(8) != 0 {
						for bad := true; bad; {
							hist[i] = randEntry(r)
							bad = false
							for _, t := range hist[i].Name {
								if t == ".." || t == "" && hist[i].K != "d" {
									bad = true
								}
							}
							if hist[i].K == "l" && (len(hist[i].Tgt) != 1 || hist[i].Tgt[0] == "..") || hist[i].K == "p" || hist[i].K == "h" {
								bad = true
							}
						}
					}
				}
				root, err := os.MkdirTemp(base, fmt.Sprintf("r%d-", w))
				if err != nil || g.Setup(root, hdr.FS0) != nil {
					outMu.Lock()
					infra++
					outMu.Unlock()
					continue
				}
				dst := g.Abs(root, hdr.Dst)
				var evs []recEvent
				evs = append(evs, recEvent{Ev: "begin", Tr: j.tr, Hist: hist})
				idx := 0
				recMu.Lock()
				recHooks[dst] = func(h *tar.Header) {
					snap := arena.SnapshotList(g.Snapshot(root))
					if h == nil {
						evs = append(evs, recEvent{Ev: "restore", Tr: j.tr, Fs: snap})
						return
					}
					if h.Typeflag == tar.TypeXGlobalHeader || true {
						idx++
					}
					evs = append(evs, recEvent{Ev: "before", Tr: j.tr, I: idx, Fs: snap})
				}
				recMu.Unlock()
				tb, _ := tarx.Tar(tarEntries(g, root, hist), []tarx.Format{tarx.PAX, tarx.GNU}[j.tr%2])
				uerr := slug.Unpack(bytes.NewReader(tarx.GzipPlain(tb)), dst)
				recMu.Lock()
				delete(recHooks, dst)
				recMu.Unlock()
				evs = append(evs, recEvent{Ev: "end", Tr: j.tr, St: statusOf(uerr), Fs: arena.SnapshotList(g.Snapshot(root))})
				arena.RemoveAll(root)
				outMu.Lock()
				for _, e := range evs {
					if e.Fs == nil && e.Ev != "begin" {
						e.Fs = []arena.PN{}
					}
					b, _ := json.Marshal(e)
					bw.Write(b)
					bw.WriteByte('\n')
				}
				outMu.Unlock()
			}
		}(w)
	}
	for i := 1; i <= n; i++ {
		jobs <- job{i}
	}
	close(jobs)
	wg.Wait()
	fmt.Printf("@@RESULT {\"family\":\"unpackrec\",\"total\":%d,\"infra\":%d}\n", n, infra)
	return 0
}
