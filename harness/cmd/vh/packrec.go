package main

import (
	"bufio"
	"encoding/json"
	"fmt"
	"math/rand"
	"os"
	"strings"
	"sync"
	"time"

	"verifh/internal/arena"
)

// Direction B for the Pack family: the real Pack (and the real Unpack of its
// output) is run on random trees that are larger and more varied than the
// model's enumerated universes; every observation is handed to Judge_Pack,
// which computes the L1 prediction for that very tree and evaluates the L0
// predicates on the observed outcome.  Names come from the name universe the
// specification knows (MCNameOrder), so that walk order and rule matching are
// defined in the model.

func init() { families["packrec"] = packRecMain }

func d7() arena.Node { return arena.Node{K: "d", M: 755, T: 1, Tgt: []string{}} }

func recOutside() []arena.PN {
	fn := func(m, t, c int) arena.Node { return arena.Node{K: "f", M: m, T: t, C: c, Tgt: []string{}} }
	return []arena.PN{
		{P: []string{"A"}, N: d7()}, {P: []string{"A", "src"}, N: d7()}, {P: []string{"A", "out"}, N: d7()},
		{P: []string{"A", "ext"}, N: d7()}, {P: []string{"A", "ext", "x"}, N: fn(640, 3, 3)},
		{P: []string{"A", "ext", "s"}, N: d7()}, {P: []string{"A", "ext", "s", "y"}, N: fn(644, 1, 6)},
		{P: []string{"A", "ef"}, N: fn(600, 4, 5)}, {P: []string{"A", "cw"}, N: d7()},
	}
}

var recNames = []string{"a", "b", "e", "f", "g", "k", "l", "m", "s", "x", "y", "z", "..n", "s.n", "-n", ".git", ".terraform", "modules"}
var recTargets = [][]string{{"f"}, {"s"}, {"nowhere"}, {"..", "f"}, {"..", "..", "ext", "x"}, {"..", "ext"}, {"", "A", "src", "f"}, {"", "A", "ext", "x"},
	{"s", "..", "f"}, {"."}, {".."}, {"..", "..", "ef"}, {"..", "s", "g"}, {"a"}, {"..", "..", "src", "f"}, {".", "b"}, {"..", "..", "ext", "s"}}

func randTree(r *rand.Rand) []arena.PN {
	tree := recOutside()
	var gen func(dir []string, depth int)
	gen = func(dir []string, depth int) {
		n := 1 + r.Intn(4)
		used := map[string]bool{}
		for i := 0; i < n; i++ {
			name := recNames[r.Intn(len(recNames))]
			if used[name] {
				continue
			}
			used[name] = true
			p := append(append([]string{}, dir...), name)
			mode := []int{644, 600, 0, 444, 755, 777, 640, 400}[r.Intn(8)]
			tm := []int{1, 2, 3, 4, 1024, 1025, 1026, 1035}[r.Intn(8)]
			switch k := r.Intn(10); {
			case k < 4:
				tree = append(tree, arena.PN{P: p, N: arena.Node{K: "f", M: mode, T: tm, C: r.Intn(7), Tgt: []string{}}})
			case k < 7:
				dm := []int{755, 700, 500, 750, 0, 555}[r.Intn(6)]
				tree = append(tree, arena.PN{P: p, N: arena.Node{K: "d", M: dm, T: tm, Tgt: []string{}}})
				if depth < 3 && r.Intn(4) != 0 {
					gen(p, depth+1)
				}
			case k < 9:
				tree = append(tree, arena.PN{P: p, N: arena.Node{K: "l", M: 777, T: 99, Tgt: recTargets[r.Intn(len(recTargets))]}})
			default:
				tree = append(tree, arena.PN{P: p, N: arena.Node{K: "p", M: 644, T: 2, Tgt: []string{}}})
			}
		}
	}
	gen([]string{"A", "src"}, 1)
	return tree
}

func packRecMain() int {
	n := *flagN
	if n <= 0 {
		n = 500
	}
	seed := seedEnv()
	out, err := os.Create(*flagOut)
	if err != nil {
		fmt.Fprintln(os.Stderr, err)
		return 2
	}
	defer out.Close()
	bw := bufio.NewWriterSize(out, 1<<20)
	defer bw.Flush()
	var mu sync.Mutex
	infra, hung := 0, 0
	jobs := make(chan int, 64)
	var wg sync.WaitGroup
	for w := 0; w < *flagWorkers; w++ {
		wg.Add(1)
		go func() {
			defer wg.Done()
			var wp *wproc
			defer func() {
				if wp != nil {
					wp.kill()
				}
			}()
			for i := range jobs {
				r := rand.New(rand.NewSource(seed*7919 + int64(i)))
				c := pCase{Fam: "pack", Tree: randTree(r), Src: []string{"A", "src"}, Cwd: []string{"A"}, Spelling: []string{"", "A", "src"},
					Rules: json.RawMessage("[]"), Lines: []string{}, Gamma: []int64{0, seed*3 + 1}[i%2]}
				c.Opts = pOpts{Ign: r.Intn(2) == 0, Deref: r.Intn(2) == 0, Allow: [][]string{}, AllowRel: [][]string{}}
				if r.Intn(4) == 0 {
					c.Opts.Allow = [][]string{{"A", "ext"}}
				}
				line, _ := json.Marshal(&c)
				if wp == nil {
					var err error
					if wp, err = startWorker(); err != nil {
						mu.Lock()
						infra++
						mu.Unlock()
						continue
					}
				}
				reply, status := wp.call(line, 12*time.Second)
				var obs pObs
				if status != "" {
					wp.kill()
					wp = nil
					hung++
					obs = pObs{Tree: c.Tree, Src: c.Src, Cwd: c.Cwd, Spelling: c.Spelling, Opts: c.Opts, Rules: c.Rules, Lines: c.Lines,
						St: status, Out: []uEntry{}, Gamma: c.Gamma, RT: pRT{St: "none", Fs: []arena.PN{}},
						Meta: pMeta{Files: [][]string{}, WfSilent: []int{}}}
				} else if json.Unmarshal(reply, &obs) != nil || obs.St == "" {
					mu.Lock()
					infra++
					if infra < 4 {
						fmt.Fprintln(os.Stderr, "packrec: bad reply:", strings.TrimSpace(string(reply)))
					}
					mu.Unlock()
					continue
				}
				b, _ := json.Marshal(&obs)
				mu.Lock()
				bw.Write(b)
				bw.WriteByte('\n')
				mu.Unlock()
			}
		}()
	}
	for i := 1; i <= n; i++ {
		jobs <- i
	}
	close(jobs)
	wg.Wait()
	fmt.Printf("@@RESULT {\"family\":\"packrec\",\"total\":%d,\"infra\":%d,\"hung\":%d}\n", n, infra, hung)
	return 0
}
