package main

import (
	"context"
	"encoding/json"
	"fmt"
	"io/fs"
	"net/url"
	"os"
	"path/filepath"
	"sort"
	"strings"
	"sync/atomic"
	"time"

	"github.com/hashicorp/go-slug/sourceaddrs"
	"github.com/hashicorp/go-slug/sourcebundle"

	"verifh/internal/arena"
	"verifh/internal/cases"
)

func init() { families["prep"] = prepMain }

type prCase struct {
	Fam   string                     `json:"fam"`
	Tree  []arena.PN                 `json:"tree"`
	Rules json.RawMessage            `json:"rules"`
	Lines []string                   `json:"lines"`
	St    string                     `json:"st"`
	Fs    []arena.PN                 `json:"fs"`
	V     map[string]json.RawMessage `json:"v"`
}

type prObs struct {
	Tree    []arena.PN      `json:"tree"`
	Rules   json.RawMessage `json:"rules"`
	Lines   []string        `json:"lines"`
	St      string          `json:"st"`
	Fs      []arena.PN      `json:"fs"`
	Outside []string        `json:"outside_changed"`
	TmpLeft bool            `json:"tmp_left"`
	Err     string          `json:"err"`
}

type prFetcher struct {
	g    *arena.Gamma
	root string
	sub  []arena.PN // nodes below A/T/w, paths relative to it
	err  error
}

func (f *prFetcher) FetchSourcePackage(ctx context.Context, t string, u *url.URL, dir string) (sourcebundle.FetchSourcePackageResponse, error) {
	f.g.SetName("w", filepath.Base(dir))
	nodes := make([]arena.PN, 0, len(f.sub))
	for _, pn := range f.sub {
		nodes = append(nodes, arena.PN{P: append([]string{"A", "T", "w"}, pn.P...), N: pn.N})
	}
	f.err = f.g.Setup(f.root, nodes)
	// a fetcher spells absolute links into the package with the directory name it was handed; when the target
	// directory was given by way of a symlink that is not the resolved spelling the arena was built with
	if resolved, err := filepath.EvalSymlinks(dir); err == nil && resolved != dir {
		filepath.Walk(resolved, func(p string, fi os.FileInfo, err error) error {
			if err == nil && fi.Mode()&os.ModeSymlink != 0 {
				if t, rerr := os.Readlink(p); rerr == nil && strings.HasPrefix(t, resolved+"/") {
					os.Remove(p)
					os.Symlink(dir+strings.TrimPrefix(t, resolved), p)
				}
			}
			return nil
		})
	}
	return sourcebundle.FetchSourcePackageResponse{}, nil
}

var prepSeq int64

type noFinder struct{}

func (noFinder) FindDependencies(fsys fs.FS, sub string, deps *sourcebundle.Dependencies) sourcebundle.Diagnostics {
	return nil
}

func runPrep(base string, c *prCase) (obs *prObs, infra string) {
	var toks []string
	seen := map[string]bool{}
	for _, pn := range c.Tree {
		for _, t := range append(append([]string{}, pn.P...), pn.N.Tgt...) {
			if !seen[t] {
				seen[t] = true
				toks = append(toks, t)
			}
		}
	}
	g := arena.NewGamma(0, toks, nil, true)
	g.RuleText = ruleText(c.Lines)
	root, err := os.MkdirTemp(base, "q-")
	if err != nil {
		return nil, err.Error()
	}
	hung := false
	defer func() {
		if !hung {
			arena.RemoveAll(root)
		}
	}()
	var outer, sub []arena.PN
	for _, pn := range c.Tree {
		if len(pn.P) >= 3 && pn.P[0] == "A" && pn.P[1] == "T" && pn.P[2] == "w" {
			if len(pn.P) > 3 {
				sub = append(sub, arena.PN{P: pn.P[3:], N: pn.N})
			}
			continue
		}
		outer = append(outer, pn)
	}
	if err := g.Setup(root, outer); err != nil {
		return nil, "setup: " + err.Error()
	}
	before := g.Snapshot(root)
	obs = &prObs{Tree: c.Tree, Rules: c.Rules, Lines: c.Lines, Outside: []string{}}
	target := g.Abs(root, []string{"A", "T"})
	if atomic.AddInt64(&prepSeq, 1)%2 == 0 {
		// every other case names the target directory by way of a symbolic link (outside the arena)
		if ld, lerr := os.MkdirTemp(base, "lnk-"); lerr == nil {
			defer os.RemoveAll(ld)
			if os.Symlink(root, filepath.Join(ld, "r")) == nil {
				target = g.Abs(filepath.Join(ld, "r"), []string{"A", "T"})
			}
		}
	}
	ft := &prFetcher{g: g, root: root, sub: sub}
	done := make(chan struct{})
	go func() {
		defer close(done)
		defer func() {
			if r := recover(); r != nil {
				obs.St = "panic"
				obs.Err = fmt.Sprint(r)
			}
		}()
		b, err := sourcebundle.NewBuilder(target, ft, nil)
		if err != nil {
			obs.St, obs.Err = "fail", err.Error()
			return
		}
		src := sourceaddrs.MustParseSource("git::https://example.com/pkg.git").(sourceaddrs.RemoteSource)
		diags := b.AddRemoteSource(context.Background(), src, noFinder{})
		if diags.HasErrors() {
			obs.St = "fail"
			obs.Err = strings.ReplaceAll(diags[0].Description().Detail, root, "")
			return
		}
		if _, err := b.Close(); err != nil {
			obs.St, obs.Err = "fail", "close: "+err.Error()
			return
		}
		obs.St = "ok"
	}()
	select {
	case <-done:
	case <-time.After(15 * time.Second):
		// the build blocks (for instance on a fifo that the checksum step opens): an observation, not an infrastructure failure
		hung = true
		return &prObs{Tree: c.Tree, Rules: c.Rules, Lines: c.Lines, St: "hang", Fs: []arena.PN{}, Outside: []string{}, Err: "build did not return within 15 s"}, ""
	}
	if ft.err != nil {
		return nil, "fetch setup: " + ft.err.Error()
	}
	// name the hash directory
	ents, _ := os.ReadDir(target)
	for _, de := range ents {
		n := de.Name()
		if strings.HasPrefix(n, ".tmp-") {
			if obs.St == "ok" {
				obs.TmpLeft = true
			}
			continue
		}
		if de.IsDir() && n != g.Name("sib") {
			g.SetName("h", n)
		}
	}
	after := g.Snapshot(root)
	delete(after, "A/T/terraform-sources.json")
	for k, n := range after {
		if !strings.HasPrefix(k, "A/T/") && k != "A/T" {
			if m, ok := before[k]; !ok || !arena.NodeEq(m, n) {
				obs.Outside = append(obs.Outside, k)
			}
		}
	}
	for k := range before {
		if _, ok := after[k]; !ok && !strings.HasPrefix(k, "A/T/") {
			obs.Outside = append(obs.Outside, k)
		}
	}
	sort.Strings(obs.Outside)
	// the target directory's own mtime changes by construction; compare below it and outside it
	if n, ok := after["A/T"]; ok {
		n.T = 1
		after["A/T"] = n
	}
	obs.Fs = arena.SnapshotList(after)
	return obs, ""
}

func prepMain() int {
	props := strings.Split(*flagProps, ",")
	base, err := os.MkdirTemp(arena.ScratchBase(), "vh-prep-")
	if err != nil {
		fmt.Fprintln(os.Stderr, err)
		return 2
	}
	defer arena.RemoveAll(base)
	acc := cases.NewAcc("prep", *flagMis)
	cases.Lines(os.Stdin, os.Stderr, *flagWorkers, nil, func(w int, raw []byte) {
		var c prCase
		if err := json.Unmarshal(raw, &c); err != nil || c.Fam != "prep" {
			return
		}
		obs, infra := runPrep(base, &c)
		if infra != "" {
			acc.Infra(infra)
			return
		}
		agree := obs.St == c.St && len(obs.Outside) == 0 && !obs.TmpLeft
		if agree && c.St == "ok" {
			pred := arena.FromList(c.Fs)
			if n, ok := pred["A/T"]; ok {
				n.T = 1
				pred["A/T"] = n
			}
			// directory mtimes inside the package change when entries are removed: compare kinds, modes, contents, targets
			ofs := arena.FromList(obs.Fs)
			for k, n := range pred {
				if n.K == "d" {
					n.T = 0
					pred[k] = n
				}
			}
			for k, n := range ofs {
				if n.K == "d" {
					n.T = 0
					ofs[k] = n
				}
			}
			// the package directory itself is created by the builder (mode 0700): not part of the fetched tree
			if o, ok := ofs["A/T/h"]; ok {
				if q, ok2 := pred["A/T/h"]; ok2 {
					q.M = o.M
					pred["A/T/h"] = q
				}
			}
			agree = arena.SameFS(pred, ofs)
		}
		acc.Count(true, agree, true, string(raw))
		acc.Sample(dropKeys(raw, "tree", "fs", "v"), 3)
		acc.Extra("st_"+c.St, 1)
		if !agree {
			acc.Mismatch(obs)
			return
		}
		for _, p := range props {
			if p == "" {
				continue
			}
			k := "c" + strings.TrimPrefix(strings.ToLower(p), "c")
			var ok bool
			if rawv, has := c.V[k]; !has || json.Unmarshal(rawv, &ok) != nil || ok {
				continue
			}
			var wit []string
			json.Unmarshal(c.V["w"+k[1:]], &wit)
			var kf string
			json.Unmarshal(c.V["kf"+k[1:]], &kf)
			ob, _ := json.Marshal(obs)
			acc.Flag(cases.Flag{Prop: p, Witness: wit, KF: kf, Case: raw, Obs: ob})
		}
	})
	acc.Finish(os.Stdout)
	return 0
}
