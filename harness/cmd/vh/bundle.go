package main

import (
	"encoding/json"
	"fmt"
	"os"
	"path/filepath"
	"strings"
	"sync/atomic"

	"github.com/apparentlymart/go-versions/versions"
	"github.com/hashicorp/go-slug/sourceaddrs"
	"github.com/hashicorp/go-slug/sourcebundle"

	"verifh/internal/arena"
	"verifh/internal/cases"
)

func init() { families["bundle"] = bundleMain }

type mPkg struct {
	Source string `json:"source"`
	Local  string `json:"local"`
	AClass string `json:"aclass"`
	DClass string `json:"dclass"`
}

type mReg struct {
	Source  string `json:"source"`
	Version string `json:"version"`
	Target  string `json:"target"`
}

type mLookup struct {
	A       string `json:"a"`
	Dir     string `json:"dir"`
	Present bool   `json:"present"`
}

type mCase struct {
	Fam     string    `json:"fam"`
	Format  int       `json:"format"`
	Pkgs    []mPkg    `json:"pkgs"`
	Regs    []mReg    `json:"regs"`
	Open    bool      `json:"open"`
	Hostile bool      `json:"hostile"`
	Lookups []mLookup `json:"lookups"`
	Raw     string    `json:"raw,omitempty"` // manifest text to write instead of the document built from the fields (mutated documents)
	RawB64  string    `json:"raw_b64,omitempty"`
}

type mObs struct {
	Case            *mCase `json:"case"`
	Opened          bool   `json:"opened"`
	OpenErr         string `json:"open_err"`
	Outside         int    `json:"outside"`          // forward lookups that leave the root
	WrongDir        int    `json:"wrong_dir"`        // forward lookups that differ from the predicted directory
	NotInverting    int    `json:"not_inverting"`    // paths inside a package directory whose round trip differs
	OutsideAccepted int    `json:"outside_accepted"` // paths outside any package translated to an address
	Panic           string `json:"panic"`
}

var bundleSeq int64

func inside(root, p string) bool {
	rel, err := filepath.Rel(root, p)
	return err == nil && rel != ".." && !strings.HasPrefix(rel, "../")
}

func runBundle(base string, c *mCase) (obs *mObs) {
	obs = &mObs{Case: c}
	defer func() {
		if r := recover(); r != nil {
			obs.Panic = fmt.Sprint(r)
		}
	}()
	root, err := os.MkdirTemp(base, "m-")
	if err != nil {
		obs.Panic = "infra: " + err.Error()
		return
	}
	defer os.RemoveAll(root)
	type pj struct {
		Source string `json:"source"`
		Local  string `json:"local"`
	}
	type rv struct {
		Source string `json:"source"`
	}
	type rj struct {
		Source   string        `json:"source"`
		Versions map[string]rv `json:"versions"`
	}
	doc := struct {
		Format   int  `json:"terraform_source_bundle"`
		Packages []pj `json:"packages,omitempty"`
		Registry []rj `json:"registry,omitempty"`
	}{Format: c.Format}
	for _, p := range c.Pkgs {
		doc.Packages = append(doc.Packages, pj{p.Source, p.Local})
		if !strings.Contains(p.Local, "..") && !strings.HasPrefix(p.Local, "/") && p.Local != "" && p.Local != "." && p.Local != "terraform-sources.json" {
			os.MkdirAll(filepath.Join(root, p.Local, "sub", "dir"), 0755)
		}
	}
	for _, r := range c.Regs {
		doc.Registry = append(doc.Registry, rj{r.Source, map[string]rv{r.Version: {r.Target}}})
	}
	b, _ := json.MarshalIndent(doc, "", "  ")
	if c.Raw == "\x00render" {
		c.Raw = string(b) // the caller wants the rendered document (to mutate it)
		return
	}
	if c.Raw != "" {
		b = []byte(c.Raw)
	}
	os.WriteFile(filepath.Join(root, "terraform-sources.json"), b, 0644)
	// every other bundle is opened by way of a symbolic link to its directory: all paths below are then spelled through
	// the link, as the bundle itself spells them
	if atomic.AddInt64(&bundleSeq, 1)%2 == 0 {
		if ld, lerr := os.MkdirTemp(base, "bl-"); lerr == nil {
			defer os.RemoveAll(ld)
			if os.Symlink(root, filepath.Join(ld, "b")) == nil {
				root = filepath.Join(ld, "b")
			}
		}
	}
	bundle, err := sourcebundle.OpenDir(root)
	if err != nil {
		obs.OpenErr = err.Error()
		return
	}
	obs.Opened = true
	for _, l := range c.Lookups {
		for _, sub := range []string{"", "sub", "sub/dir"} {
			a := l.A
			if sub != "" {
				// the sub-path goes before the query string
				if i := strings.Index(a, "?"); i >= 0 {
					a = a[:i] + "//" + sub + a[i:]
				} else {
					a += "//" + sub
				}
			}
			src, perr := sourceaddrs.ParseRemoteSource(a)
			if perr != nil {
				obs.Panic = "infra: lookup address does not parse: " + a
				return
			}
			p, lerr := bundle.LocalPathForRemoteSource(src)
			if (lerr == nil) != l.Present {
				obs.WrongDir++
				continue
			}
			if lerr != nil {
				continue
			}
			if !inside(root, p) {
				obs.Outside++
			}
			if p != filepath.Join(root, l.Dir, sub) {
				obs.WrongDir++
			}
			// reverse lookup must invert, also for spellings with . and ..
			spellings := []string{p, p + "/.", filepath.Dir(p) + "/../" + filepath.Base(filepath.Dir(p)) + "/" + filepath.Base(p)}
			if cwd, cerr := os.Getwd(); cerr == nil {
				// the same location written relative to the working directory
				if rel, rerr := filepath.Rel(cwd, p); rerr == nil {
					spellings = append(spellings, rel)
				}
			}
			for _, sp := range spellings {
				if sp != p && p == filepath.Join(root, l.Dir) {
					continue // the odd spellings are only meaningful below the package root
				}
				back, berr := bundle.SourceForLocalPath(sp)
				if berr != nil {
					obs.NotInverting++
					continue
				}
				fwd, ferr := bundle.LocalPathForSource(back)
				if ferr != nil || fwd != filepath.Clean(p) {
					obs.NotInverting++
				}
			}
		}
	}
	for _, pk := range c.Pkgs {
		if pk.Local == "terraform-sources.json" {
			continue
		}
		p := filepath.Join(root, pk.Local, "sub")
		if back, berr := bundle.SourceForLocalPath(p); berr == nil {
			// if the path is attributed to a package, going forward again must return it
			if fwd, ferr := bundle.LocalPathForSource(back); ferr != nil || fwd != filepath.Clean(p) {
				obs.NotInverting++
			}
		}
	}
	for _, r := range c.Regs {
		rs, perr := sourceaddrs.ParseRegistrySource(r.Source)
		v, verr := versions.ParseVersion(r.Version)
		if perr != nil || verr != nil {
			continue
		}
		if p, lerr := bundle.LocalPathForRegistrySource(rs, v); lerr == nil && !inside(root, p) {
			obs.Outside++
		}
	}
	// paths outside any package directory; the listed directories are those of the document that was written
	locals := []string{}
	for _, pk := range c.Pkgs {
		locals = append(locals, pk.Local)
	}
	if c.Raw != "" {
		var written struct {
			Packages []struct {
				Local string `json:"local"`
			} `json:"packages"`
		}
		if json.Unmarshal([]byte(c.Raw), &written) == nil {
			locals = locals[:0]
			for _, pk := range written.Packages {
				locals = append(locals, pk.Local)
			}
		}
	}
	outsidePaths := []string{}
	for _, pkLocal := range locals {
		pk := mPkg{Local: pkLocal}
		// a directory whose name differs from a listed one only by letter case is not in the manifest
		for _, v := range []string{strings.ToUpper(pk.Local), strings.ToLower(pk.Local)} {
			listed := false
			for _, q := range locals {
				if q == v {
					listed = true
				}
			}
			if !listed && v != "" && !strings.ContainsAny(v, "/\\") && v != "." && v != ".." {
				outsidePaths = append(outsidePaths, filepath.Join(root, v, "sub"))
			}
		}
		// siblings of the bundle root whose names merely extend the root's name (by the package directory name, or by
		// anything) are outside
		if pk.Local != "" && !strings.ContainsAny(pk.Local, "/\\") && pk.Local != "." && pk.Local != ".." {
			outsidePaths = append(outsidePaths, root+pk.Local, root+pk.Local+"/sub/main.tf", root+"x/"+pk.Local+"/sub")
		}
	}
	for _, p := range append(outsidePaths, []string{root, filepath.Dir(root), filepath.Join(root, "nosuchdir", "x"), filepath.Join(root, "..", "elsewhere"), "/", filepath.Join(root, "terraform-sources.json-not")}...) {
		if _, err := bundle.SourceForLocalPath(p); err == nil {
			known := false
			for _, l := range locals {
				if strings.HasPrefix(p, filepath.Join(root, l)) && l != "" {
					known = true
				}
			}
			if !known {
				obs.OutsideAccepted++
			}
		}
	}
	return obs
}

func bundleMain() int {
	base, err := os.MkdirTemp(arena.ScratchBase(), "vh-bundle-")
	if err != nil {
		fmt.Fprintln(os.Stderr, err)
		return 2
	}
	defer arena.RemoveAll(base)
	acc := cases.NewAcc("bundle", *flagMis)
	cases.Lines(os.Stdin, os.Stderr, *flagWorkers, nil, func(w int, raw []byte) {
		var c mCase
		if err := json.Unmarshal(raw, &c); err != nil || c.Fam != "bundle" {
			return
		}
		obs := runBundle(base, &c)
		if strings.HasPrefix(obs.Panic, "infra:") {
			acc.Infra(obs.Panic)
			return
		}
		agree := obs.Panic == "" && obs.Opened == c.Open && obs.Outside == 0 && obs.WrongDir == 0 && obs.NotInverting == 0 && obs.OutsideAccepted == 0
		acc.Count(true, agree, len(c.Pkgs) >= 1, string(raw))
		acc.Sample(raw, 3)
		if obs.Opened {
			acc.Extra("opened", 1)
		}
		if !agree {
			acc.Mismatch(obs)
		}
	})
	acc.Finish(os.Stdout)
	return 0
}
