package main

import (
	"bytes"
	"fmt"
	"os"
	"strings"
	"time"

	slug "github.com/hashicorp/go-slug"

	"verifh/internal/arena"
	"verifh/internal/tarx"
)

// Structured corruption of well-formed archives (C19 for Unpack: "no entry
// point panics, crashes or hangs on any input"; C01: whatever the stream says,
// nothing outside dst changes).  The base archives come from TLC; every header
// field of every entry is overwritten with a set of hostile encodings (the
// header checksum is repaired, so the parser gets past it), extension headers
// with hostile PAX / GNU records are spliced in, and the tar and gzip framing
// is damaged.  Each corrupted stream is unpacked into a fresh arena.

type tarMut struct {
	name string
	data []byte
}

type fieldSpec struct {
	name     string
	off, len int
}

var hdrFields = []fieldSpec{
	{"name", 0, 100}, {"mode", 100, 8}, {"uid", 108, 8}, {"size", 124, 12}, {"mtime", 136, 12},
	{"linkname", 157, 100}, {"magic", 257, 8}, {"uname", 265, 32}, {"devmajor", 329, 8}, {"prefix", 345, 155},
}

func hostileValues(f fieldSpec) [][]byte {
	rep := func(b byte, n int) []byte { return bytes.Repeat([]byte{b}, n) }
	var vs [][]byte
	switch f.name {
	case "name", "linkname", "prefix", "uname":
		for _, s := range []string{"", "/", "////", "../../../x", "a\x00b", ".", "..", "./", "a/../../x", "\\..\\x", "a//b/", "\xff\xfe"} {
			v := make([]byte, f.len)
			copy(v, s)
			vs = append(vs, v)
		}
		vs = append(vs, rep('a', f.len), rep('/', f.len), append(rep('.', f.len-1), '/'))
	default: // numeric fields
		vs = append(vs, rep(0xff, f.len), append([]byte{0x80}, rep(0x7f, f.len-1)...), append([]byte{0x80}, rep(0, f.len-1)...),
			rep('7', f.len), append(rep('7', f.len-1), 0), append([]byte("abcdefghijklmnop")[:f.len-1], 0), rep(0, f.len), rep(' ', f.len),
			append(append(rep('0', f.len-4), []byte("001")...), 0), append(append(rep('0', f.len-5), []byte("1000")...), 0), append([]byte("-1"), rep(0, f.len-2)...))
	}
	return vs
}

var hostilePax = []string{
	tarx.PaxRecord("path", "../../x"), tarx.PaxRecord("path", "/"), tarx.PaxRecord("path", "a\x00b"), tarx.PaxRecord("path", ""),
	tarx.PaxRecord("path", strings.Repeat("d/", 3000)), tarx.PaxRecord("linkpath", "../../.."), tarx.PaxRecord("linkpath", ""),
	tarx.PaxRecord("size", "-1"), tarx.PaxRecord("size", "99999999999999999999"), tarx.PaxRecord("size", "1"), tarx.PaxRecord("size", "x"),
	tarx.PaxRecord("mtime", "-1"), tarx.PaxRecord("mtime", "99999999999999999999.5"), tarx.PaxRecord("mtime", "1.2.3"), tarx.PaxRecord("atime", "-9999999999"),
	tarx.PaxRecord("uid", "-1"), tarx.PaxRecord("GNU.sparse.major", "1") + tarx.PaxRecord("GNU.sparse.minor", "0") + tarx.PaxRecord("GNU.sparse.name", "x") + tarx.PaxRecord("GNU.sparse.realsize", "9"),
	tarx.PaxRecord("GNU.sparse.map", "0,1,2"), tarx.PaxRecord("SCHILY.xattr.user.a", "b"), tarx.PaxRecord("hdrcharset", "BINARY"),
	"0 path=\n", "5 a=\n", "99999 path=x\n", "12 path=x", "-3 a=b\n", " 9 a=b\n", "\n", "9 =\n\n", strings.Repeat("9", 40) + " a=b\n",
}

func tarMutations(tb []byte, regs []tarx.Region) []tarMut {
	var out []tarMut
	clone := func() []byte { return append([]byte{}, tb...) }
	for _, r := range regs {
		if r.Kind != "hdr" {
			continue
		}
		h := r.Off + r.Len - 512 // the entry's own header block (extension headers precede it)
		for _, f := range hdrFields {
			for vi, v := range hostileValues(f) {
				m := clone()
				copy(m[h+f.off:h+f.off+f.len], v)
				tarx.FixChecksum(m, h)
				out = append(out, tarMut{fmt.Sprintf("entry %d %s value %d", r.Entry+1, f.name, vi), m})
			}
		}
		for _, t := range []byte{0, '0', '1', '2', '3', '4', '5', '6', '7', 'x', 'g', 'L', 'K', 'S', 'D', 'M', 'N', 'V', 'A', 0xff} {
			m := clone()
			m[h+156] = t
			tarx.FixChecksum(m, h)
			out = append(out, tarMut{fmt.Sprintf("entry %d typeflag %q", r.Entry+1, t), m})
		}
		m := clone()
		m[h+148] ^= 0x55
		out = append(out, tarMut{fmt.Sprintf("entry %d checksum damaged", r.Entry+1), m})
		for pi, recs := range hostilePax {
			for _, typ := range []byte{'x', 'g'} {
				ext := tarx.ExtHeader(typ, "PaxHeaders.0/x", []byte(recs), int64(len(recs)))
				m := append(append(append([]byte{}, tb[:h]...), ext...), tb[h:]...)
				out = append(out, tarMut{fmt.Sprintf("entry %d pax %c records %d", r.Entry+1, typ, pi), m})
			}
		}
		for gi, g := range []struct {
			body string
			size int64
		}{{"../../x\x00", 8}, {"noterminator", 12}, {"x\x00", 600}, {"x\x00", 0}, {strings.Repeat("n", 700), 700}, {"", 0}, {"a\x00b\x00", 4}} {
			for _, typ := range []byte{'L', 'K'} {
				ext := tarx.ExtHeader(typ, "././@LongLink", []byte(g.body), g.size)
				m := append(append(append([]byte{}, tb[:h]...), ext...), tb[h:]...)
				out = append(out, tarMut{fmt.Sprintf("entry %d gnu %c body %d", r.Entry+1, typ, gi), m})
			}
		}
		// the entry's header twice, and the header without what follows
		m = append(append(append([]byte{}, tb[:h+512]...), tb[h:h+512]...), tb[h+512:]...)
		out = append(out, tarMut{fmt.Sprintf("entry %d header doubled", r.Entry+1), m})
		out = append(out, tarMut{fmt.Sprintf("entry %d stream ends after header", r.Entry+1), append([]byte{}, tb[:h+512]...)})
		out = append(out, tarMut{fmt.Sprintf("entry %d stream ends inside header", r.Entry+1), append([]byte{}, tb[:h+300]...)})
	}
	if len(tb) > 1024 {
		out = append(out, tarMut{"no end-of-archive blocks", append([]byte{}, tb[:len(tb)-1024]...)})
		out = append(out, tarMut{"one end-of-archive block", append([]byte{}, tb[:len(tb)-512]...)})
		out = append(out, tarMut{"odd length", append([]byte{}, tb[:len(tb)-700]...)})
	}
	out = append(out, tarMut{"archive twice", append(append([]byte{}, tb...), tb...)})
	return out
}

func gzipMutations(tb []byte) []tarMut {
	gz := tarx.GzipPlain(tb)
	var out []tarMut
	for _, off := range []int{0, 1, 2, 3, 4, 8, 9, 10, 11, len(gz) / 2, len(gz) - 9, len(gz) - 8, len(gz) - 4, len(gz) - 1} {
		if off < 0 || off >= len(gz) {
			continue
		}
		for _, x := range []byte{0x01, 0x04, 0x08, 0x10, 0xff} {
			m := append([]byte{}, gz...)
			m[off] ^= x
			out = append(out, tarMut{fmt.Sprintf("gzip byte %d xor %#x", off, x), m})
		}
	}
	out = append(out, tarMut{"two gzip members", append(append([]byte{}, gz...), gz...)})
	out = append(out, tarMut{"gzip member then garbage", append(append([]byte{}, gz...), []byte("garbage after the stream")...)})
	out = append(out, tarMut{"empty stream", []byte{}})
	out = append(out, tarMut{"gzip of nothing", tarx.GzipPlain(nil)})
	return out
}

// outsideDiff lists what differs outside dst between FS0 and a projection.
func outsideDiff(h *uHeader, snap map[string]arena.Node) []string {
	var notes []string
	dstKey := strings.Join(h.Dst, "/")
	fs0 := arena.FromList(h.FS0)
	for k, n0 := range fs0 {
		if k == "" || k == dstKey || strings.HasPrefix(k, dstKey+"/") {
			continue
		}
		if o, ok := snap[k]; !ok || !arena.NodeEq(o, n0) {
			notes = append(notes, k+" changed")
		}
	}
	for k := range snap {
		if k != dstKey && !strings.HasPrefix(k, dstKey+"/") {
			if _, ok := fs0[k]; !ok {
				notes = append(notes, k+" created")
			}
		}
	}
	return notes
}

func unpackMutations(base string, h *uHeader, g *arena.Gamma, c *uCase, full *uObs, w int) string {
	probe, err := os.MkdirTemp(base, fmt.Sprintf("m%d-", w))
	if err != nil {
		return "mkdtemp: " + err.Error()
	}
	defer arena.RemoveAll(probe)
	root := probe + "/r"
	tb, regs := tarx.Tar(tarEntries(g, root, c.Hist), tarx.PAX)
	var streams []tarMut
	for _, m := range tarMutations(tb, regs) {
		streams = append(streams, tarMut{m.name, tarx.GzipPlain(m.data)})
	}
	streams = append(streams, gzipMutations(tb)...)
	for _, m := range streams {
		arena.RemoveAll(root)
		if err := os.Mkdir(root, 0755); err != nil {
			return "mkdir: " + err.Error()
		}
		if err := g.Setup(root, h.FS0); err != nil {
			return "setup: " + err.Error()
		}
		full.MutRuns++
		type res struct{ panicked string }
		done := make(chan res, 1)
		go func(data []byte) {
			var r res
			defer func() {
				if x := recover(); x != nil {
					r.panicked = fmt.Sprint(x)
				}
				done <- r
			}()
			slug.Unpack(bytes.NewReader(data), g.Abs(root, h.Dst))
		}(m.data)
		select {
		case r := <-done:
			if r.panicked != "" {
				full.MutBad++
				full.MutNotes = append(full.MutNotes, m.name+": panic: "+r.panicked)
			}
		case <-time.After(20 * time.Second):
			full.MutBad++
			full.MutNotes = append(full.MutNotes, m.name+": no return within 20 s")
			return "" // the arena is still in use by the stuck call
		}
		if d := outsideDiff(h, g.Snapshot(root)); len(d) > 0 {
			full.MutOutside++
			full.MutNotes = append(full.MutNotes, m.name+": "+strings.Join(d, ", "))
		}
	}
	if len(full.MutNotes) > 8 {
		full.MutNotes = full.MutNotes[:8]
	}
	return ""
}
