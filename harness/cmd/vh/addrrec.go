package main

import (
	"bufio"
	"encoding/json"
	"fmt"
	"math/rand"
	"os"
	"strings"
	"sync"
)

// Direction B for the address family: strings mutated from valid and
// near-valid addresses (the "arbitrary strings" of C07 and C19) are given to
// the parsers; Judge_Addr evaluates the transport policy on the accessor
// record of whatever was accepted, and that nothing panicked.

func init() { families["addrrec"] = addrRecMain }

var addrPool = []string{
	"git::https://example.com/x.git//sub?ref=main", "https://example.com/x.tgz", "https://example.com/x.tar.gz//sub/dir",
	"github.com/hashicorp/go-slug//sub", "gitlab.com/hashicorp/go-slug", "example.com/ns/name/sys//sub", "hashicorp/subnets/cidr",
	"./a/b", "../x", "git@github.com:org/repo.git", "hg::http://example.com/r", "s3::https://s3.amazonaws.com/b/k.zip",
	"https://u:p@example.com/x.tgz", "git::ssh://git@example.com/x.git", "https://example.com/x.zip?archive=tgz&checksum=1",
	"git::https://example.com:8080/x.git?ref=a&depth=1", "example.com/ns/name/sys@1.2.3//sub", "http::https://example.com/x.tgz",
	"git::http://example.com/x.git", "https://example.com/dl?archive=tar.gz", "git::https://example.com/x.git?ref=a&ref=b",
	"https::https://example.com/x.tgz", "git::git://example.com/x.git", "GIT::HTTPS://EXAMPLE.com/x.git", "https://example.com//x.tgz",
	"https://[::1]:8443/x.tgz", "git::https://example.com/x.git//../..", "https://example.com/x.tgz?archive=zip&archive=tgz",
	// ';' was once a separator of query arguments: what follows it is an argument for whoever still splits there
	"https://example.com/x.tgz?checksum=1;a=b", "git::https://example.com/x.git?ref=main;depth=1", "https://example.com/x.tgz?a=b;archive=zip",
}

const addrAlphabet = "abxyzAZ019-._~/:@?&=+$,;!*'()[]"

func mutateAddr(r *rand.Rand, s string) string {
	for k, n := 0, 1+r.Intn(3); k < n; k++ {
		b := []byte(s)
		pos := 0
		if len(b) > 0 {
			pos = r.Intn(len(b))
		}
		switch r.Intn(8) {
		case 0: // delete
			if len(b) > 0 {
				b = append(b[:pos], b[pos+1:]...)
			}
		case 1: // insert
			b = append(b[:pos], append([]byte{addrAlphabet[r.Intn(len(addrAlphabet))]}, b[pos:]...)...)
		case 2: // replace
			if len(b) > 0 {
				b[pos] = addrAlphabet[r.Intn(len(addrAlphabet))]
			}
		case 3: // duplicate a stretch
			end := pos + 1 + r.Intn(6)
			if end > len(b) {
				end = len(b)
			}
			b = append(b[:end], append(append([]byte{}, b[pos:end]...), b[end:]...)...)
		case 4: // swap neighbours
			if pos+1 < len(b) {
				b[pos], b[pos+1] = b[pos+1], b[pos]
			}
		case 5: // cut
			b = b[:pos]
		case 6: // splice another address in
			o := addrPool[r.Intn(len(addrPool))]
			b = append(b[:pos], []byte(o[r.Intn(len(o)):])...)
		case 7: // letter case of a stretch
			end := pos + 1 + r.Intn(8)
			if end > len(b) {
				end = len(b)
			}
			copy(b[pos:end], []byte(strings.ToUpper(string(b[pos:end]))))
		}
		s = string(b)
	}
	return s
}

func addrRecMain() int {
	n := *flagN
	if n <= 0 {
		n = 2000
	}
	seed := seedEnv()
	out, err := os.Create(*flagOut)
	if err != nil {
		fmt.Fprintln(os.Stderr, err)
		return 2
	}
	defer out.Close()
	bw := bufio.NewWriterSize(out, 1<<20)
	defer bw.Flush()
	var mu sync.Mutex
	jobs := make(chan int, 256)
	var wg sync.WaitGroup
	for w := 0; w < *flagWorkers; w++ {
		wg.Add(1)
		go func() {
			defer wg.Done()
			for i := range jobs {
				r := rand.New(rand.NewSource(seed*15485863 + int64(i)))
				s := mutateAddr(r, addrPool[r.Intn(len(addrPool))])
				c := aCase{Fam: "addr", Op: "parse", Route: []string{"source", "final"}[i%2], S: s, Expect: json.RawMessage(`"any"`)}
				obs := runAddr(&c)
				b, _ := json.Marshal(obs)
				mu.Lock()
				bw.Write(b)
				bw.WriteByte('\n')
				mu.Unlock()
			}
		}()
	}
	for i := 1; i <= n; i++ {
		jobs <- i
	}
	close(jobs)
	wg.Wait()
	fmt.Printf("@@RESULT {\"family\":\"addrrec\",\"total\":%d,\"infra\":0}\n", n)
	return 0
}
