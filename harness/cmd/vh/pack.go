package main

import (
	"archive/tar"
	"bufio"
	"bytes"
	"compress/gzip"
	"encoding/json"
	"fmt"
	"io"
	"os"
	"os/exec"
	"runtime/debug"
	"strconv"
	"strings"
	"sync"
	"sync/atomic"
	"time"

	slug "github.com/hashicorp/go-slug"

	"verifh/internal/arena"
	"verifh/internal/cases"
	"verifh/internal/tarx"
)

func init() {
	families["pack"] = packMain
	families["packw"] = packWorker
}

type pOpts struct {
	Ign      bool       `json:"ign"`
	Deref    bool       `json:"deref"`
	Allow    [][]string `json:"allow"`
	AllowRel [][]string `json:"allowrel"`
}

type pMeta struct {
	WfRuns    int        `json:"wfruns"`   // writer faults injected (one Pack per byte offset of the slug)
	WfSilent  []int      `json:"wfsilent"` // offsets at which Pack returned no error
	Files     [][]string `json:"files"`
	Size      int64      `json:"size"`
	BodyBytes int64      `json:"bodybytes"`
	HdrSizes  int64      `json:"hdrsizes"`
}

type pRT struct {
	St string     `json:"st"`
	Fs []arena.PN `json:"fs"`
}

type pPre struct {
	Op    string   `json:"op"` // "parse" | "pack"
	Lines []string `json:"lines,omitempty"`
	Ign   bool     `json:"ign,omitempty"`
}

type pCase struct {
	Fam      string                     `json:"fam"`
	Tree     []arena.PN                 `json:"tree"`
	Src      []string                   `json:"src"`
	Cwd      []string                   `json:"cwd"`
	Spelling []string                   `json:"spelling"`
	Opts     pOpts                      `json:"opts"`
	Rules    json.RawMessage            `json:"rules"`
	Lines    []string                   `json:"lines"`
	Pre      []pPre                     `json:"pre,omitempty"`
	Conc     bool                       `json:"conc,omitempty"`
	C16      bool                       `json:"c16,omitempty"`
	API      string                     `json:"api,omitempty"` // "" / packer: a Packer value; legacy-*: the package-level Pack
	WFaults  bool                       `json:"wfaults,omitempty"`
	Canon    *pCanon                    `json:"canon,omitempty"`
	St       string                     `json:"st"`
	Out      []uEntry                   `json:"out"`
	RT       pRT                        `json:"rt"`
	V        map[string]json.RawMessage `json:"v"`
	Gamma    int64                      `json:"gamma,omitempty"`
}

type pCanon struct {
	St  string   `json:"st"`
	Out []uEntry `json:"out"`
}

type pObs struct {
	Canon    *pCanon         `json:"canon,omitempty"`
	Tree     []arena.PN      `json:"tree"`
	Src      []string        `json:"src"`
	Cwd      []string        `json:"cwd"`
	Spelling []string        `json:"spelling"`
	Opts     pOpts           `json:"opts"`
	Rules    json.RawMessage `json:"rules"`
	Lines    []string        `json:"lines"`
	Pre      []pPre          `json:"pre,omitempty"`
	St       string          `json:"st"`
	Out      []uEntry        `json:"out"`
	Meta     pMeta           `json:"meta"`
	RT       pRT             `json:"rt"`
	Err      string          `json:"err"`
	Gamma    int64           `json:"gamma"`
	Race     bool            `json:"race,omitempty"`
	SizeOK   bool            `json:"sizeok"` // meta sizes equal the gamma table's sizes of the predicted contents
}

// ---------------------------------------------------------------- worker

func packTokens(c *pCase) []string {
	set := map[string]bool{}
	add := func(ts []string) {
		for _, t := range ts {
			set[t] = true
		}
	}
	for _, pn := range c.Tree {
		add(pn.P)
		add(pn.N.Tgt)
	}
	add(c.Src)
	add(c.Cwd)
	add(c.Spelling)
	var out []string
	for t := range set {
		out = append(out, t)
	}
	return out
}

func readSlug(g *arena.Gamma, root string, b []byte) ([]uEntry, int64, int64, error) {
	gz, err := gzip.NewReader(bytes.NewReader(b))
	if err != nil {
		return nil, 0, 0, err
	}
	tr := tar.NewReader(gz)
	var out []uEntry
	var hs, bs int64
	for {
		h, err := tr.Next()
		if err == io.EOF {
			break
		}
		if err != nil {
			return out, hs, bs, err
		}
		e := uEntry{M: arena.ModeBack(os.FileMode(h.Mode)), T: arena.TimeBack(h.ModTime), Tgt: []string{}}
		parts := strings.Split(h.Name, "/")
		for i := range parts {
			if parts[i] != "" {
				parts[i] = g.Tok(parts[i])
			}
		}
		e.Name = parts
		hs += h.Size // the size recorded in every entry header, whatever the entry's type
		switch h.Typeflag {
		case tar.TypeReg:
			e.K = "f"
			body, _ := io.ReadAll(tr)
			e.C = g.ContentBack(body)
			bs += int64(len(body))
		case tar.TypeDir:
			e.K = "d"
		case tar.TypeSymlink:
			e.K = "l"
			e.M = 777
			e.Tgt = g.Unspell(root, h.Linkname)
		default:
			e.K = "?" + string(h.Typeflag)
		}
		out = append(out, e)
	}
	return out, hs, bs, nil
}

func newPacker(g *arena.Gamma, root string, o pOpts) *slug.Packer {
	var opts []slug.PackerOption
	if o.Ign {
		opts = append(opts, slug.ApplyTerraformIgnore())
	}
	if o.Deref {
		opts = append(opts, slug.DereferenceSymlinks())
	}
	for _, a := range o.Allow {
		opts = append(opts, slug.AllowSymlinkTarget(g.Abs(root, a)))
	}
	for _, a := range o.AllowRel {
		opts = append(opts, slug.AllowSymlinkTarget(g.Spell(root, a)))
	}
	p, _ := slug.NewPacker(opts...)
	return p
}

func runPackCase(base string, c *pCase) (obs *pObs, infra string) {
	g := arena.NewGamma(c.Gamma, packTokens(c), [][2]string{{"src", "srcx"}, {"ext", "ext2"}, {"a", "ab"}, {"rl", "rl2"}}, true)
	if len(c.Lines) > 0 || hasRuleFile(c.Tree) {
		g.RuleText = ruleText(c.Lines)
	}
	root, err := os.MkdirTemp(base, "p-")
	if err != nil {
		return nil, "mkdtemp: " + err.Error()
	}
	defer arena.RemoveAll(root)
	if err := g.Setup(root, c.Tree); err != nil {
		return nil, "setup: " + err.Error()
	}
	if before := g.Snapshot(root); !arena.SameFS(before, arena.FromList(c.Tree)) {
		return nil, "arena does not project back: " + strings.Join(arena.Diff(arena.FromList(c.Tree), before), "; ")
	}
	if err := os.Chdir(g.Abs(root, c.Cwd)); err != nil {
		return nil, "chdir: " + err.Error()
	}
	defer os.Chdir("/")
	obs = &pObs{Tree: c.Tree, Src: c.Src, Cwd: c.Cwd, Spelling: c.Spelling, Opts: c.Opts, Rules: c.Rules, Lines: c.Lines, Pre: c.Pre, Gamma: c.Gamma}
	func() {
		defer func() {
			if r := recover(); r != nil {
				obs.St = "panic"
				obs.Err = fmt.Sprint(r)
			}
		}()
		for _, pre := range c.Pre {
			switch pre.Op {
			case "parse":
				d, _ := os.MkdirTemp(base, "pre-")
				os.WriteFile(d+"/.terraformignore", []byte(strings.Join(pre.Lines, "\n")+"\n"), 0644)
				var sink bytes.Buffer
				slug.Pack(d, &sink, false)
				os.RemoveAll(d)
			case "pack":
				var sink bytes.Buffer
				newPacker(g, root, pOpts{Ign: pre.Ign}).Pack(g.Abs(root, c.Src), &sink)
			}
		}
		p := newPacker(g, root, c.Opts)
		legacy := strings.HasPrefix(c.API, "legacy")
		other := g.Abs(root, []string{"A", "cw", "t"})
		if _, err := os.Lstat(other); err == nil && !legacy {
			// A Packer is an options object: the very value used below first packs another
			// root (which holds an external link, so every validation path runs). This must not matter.
			var sink bytes.Buffer
			p.Pack(other, &sink)
		}
		var buf bytes.Buffer
		var wg sync.WaitGroup
		var sinkW io.Writer = &buf
		if c.Conc {
			// a second Pack on the same Packer value, of another tree, overlapping with the main one:
			// the main call's writer blocks on its first Write until the other call is done
			gate := make(chan struct{})
			wg.Add(1)
			go func() {
				defer wg.Done()
				defer func() { recover() }()
				var sink bytes.Buffer
				p.Pack(other, &sink)
				// ... and an unrelated Pack whose rule file begins with a negation (rule parsing starts from the
				// process-wide default rules)
				if d, err := os.MkdirTemp(base, "cc-"); err == nil {
					os.WriteFile(d+"/.terraformignore", []byte("!x\ny\n"), 0644)
					var sink2 bytes.Buffer
					slug.Pack(d, &sink2, false)
					os.RemoveAll(d)
				}
			}()
			go func() { wg.Wait(); close(gate) }()
			sinkW = &gateWriter{w: &buf, gate: gate}
		}
		var meta *slug.Meta
		var perr error
		if legacy {
			meta, perr = slug.Pack(g.Spell(root, c.Spelling), sinkW, c.Opts.Deref)
		} else {
			meta, perr = p.Pack(g.Spell(root, c.Spelling), sinkW)
		}
		wg.Wait()
		obs.St = statusOf(perr)
		if perr != nil {
			obs.Err = strings.ReplaceAll(perr.Error(), root, "")
		}
		out, hs, bs, rerr := readSlug(g, root, buf.Bytes())
		if perr == nil && rerr != nil {
			obs.St = "err"
			obs.Err = "slug unreadable: " + rerr.Error()
		}
		if perr != nil {
			// a failed Pack has no defined output; entries written so far are not compared
			out = nil
		}
		obs.Out = out
		if obs.Out == nil {
			obs.Out = []uEntry{}
		}
		obs.Meta = pMeta{HdrSizes: hs, BodyBytes: bs, Files: [][]string{}, WfSilent: []int{}}
		if c.WFaults && perr == nil {
			for off := 0; off < buf.Len(); off++ {
				fw := &tarx.FaultWriter{W: io.Discard, N: off, Err: fmt.Errorf("injected write fault")}
				_, werr := newPacker(g, root, c.Opts).Pack(g.Spell(root, c.Spelling), fw)
				obs.Meta.WfRuns++
				if werr == nil {
					obs.Meta.WfSilent = append(obs.Meta.WfSilent, off)
				}
			}
		}
		if meta != nil {
			obs.Meta.Size = meta.Size
			for _, f := range meta.Files {
				parts := strings.Split(f, "/")
				for i := range parts {
					if parts[i] != "" {
						parts[i] = g.Tok(parts[i])
					}
				}
				obs.Meta.Files = append(obs.Meta.Files, parts)
			}
		}
		obs.RT = pRT{St: "none", Fs: []arena.PN{}}
		if c.C16 {
			obs.RT.St = "skip"
		}
		if perr == nil && rerr == nil && !c.C16 {
			dst := g.Abs(root, []string{"A", "out"})
			uerr := slug.Unpack(bytes.NewReader(buf.Bytes()), dst)
			obs.RT.St = statusOf(uerr)
			snap := g.Snapshot(root)
			for k, n := range snap {
				if strings.HasPrefix(k, "A/out/") {
					obs.RT.Fs = append(obs.RT.Fs, arena.PN{P: strings.Split(k, "/"), N: n})
				}
			}
			// everything outside A/out must be untouched by the round trip
			delete(snap, "A/out")
			for k := range snap {
				if strings.HasPrefix(k, "A/out/") {
					delete(snap, k)
				}
			}
		}
	}()
	// a panic leaves fields unset: the judge needs well-formed records
	if obs.Out == nil {
		obs.Out = []uEntry{}
	}
	if obs.Meta.Files == nil {
		obs.Meta.Files = [][]string{}
	}
	if obs.Meta.WfSilent == nil {
		obs.Meta.WfSilent = []int{}
	}
	if obs.RT.Fs == nil {
		obs.RT.Fs = []arena.PN{}
	}
	if obs.RT.St == "" {
		obs.RT.St = "none"
	}
	if obs.Opts.Allow == nil {
		obs.Opts.Allow = [][]string{}
	}
	if obs.Opts.AllowRel == nil {
		obs.Opts.AllowRel = [][]string{}
	}
	if obs.Lines == nil {
		obs.Lines = []string{}
	}
	return obs, ""
}

// ruleText renders a rule file: a leading comment line keeps it distinguishable from an empty file.
func ruleText(lines []string) []byte {
	return []byte("# rules generated from the specification\n" + strings.Join(lines, "\n") + "\n")
}

// gateWriter blocks its first Write until gate is closed.
type gateWriter struct {
	w    io.Writer
	gate chan struct{}
	once sync.Once
}

func (g *gateWriter) Write(p []byte) (int, error) {
	g.once.Do(func() { <-g.gate })
	return g.w.Write(p)
}

func hasRuleFile(t []arena.PN) bool {
	for _, pn := range t {
		if pn.N.K == "f" && pn.N.C == arena.RuleFileC {
			return true
		}
	}
	return false
}

// packWorker: one JSON case per stdin line, one JSON reply per stdout line.
func packWorker() int {
	debug.SetMaxStack(48 << 20) // make runaway recursion die quickly instead of eating 1 GB
	// the parent owns (and removes) the scratch directory: a worker may be killed at any time
	base := os.Getenv("VH_PACKW_BASE")
	if base == "" {
		var err error
		base, err = os.MkdirTemp(arena.ScratchBase(), "vh-packw-")
		if err != nil {
			fmt.Fprintln(os.Stderr, err)
			return 2
		}
		defer arena.RemoveAll(base)
	}
	sc := bufio.NewScanner(os.Stdin)
	sc.Buffer(make([]byte, 1<<20), 1<<28)
	w := bufio.NewWriter(os.Stdout)
	for sc.Scan() {
		var c pCase
		if err := json.Unmarshal(sc.Bytes(), &c); err != nil {
			fmt.Fprintln(w, `{"infra":"bad case"}`)
			w.Flush()
			continue
		}
		obs, infra := runPackCase(base, &c)
		var b []byte
		if infra != "" {
			b, _ = json.Marshal(map[string]string{"infra": infra})
		} else {
			b, _ = json.Marshal(obs)
		}
		w.Write(b)
		w.WriteByte('\n')
		w.Flush()
	}
	return 0
}

// ---------------------------------------------------------------- parent

type wproc struct {
	cmd  *exec.Cmd
	in   io.WriteCloser
	out  *bufio.Reader
	err  *capWriter
	base string
}

func startWorker() (*wproc, error) {
	cmd := exec.Command(os.Args[0], "packw")
	wbase, err := os.MkdirTemp(arena.ScratchBase(), "vh-packw-")
	if err != nil {
		return nil, err
	}
	cmd.Env = append(os.Environ(), "VH_PACKW_BASE="+wbase)
	in, _ := cmd.StdinPipe()
	out, _ := cmd.StdoutPipe()
	eb := &capWriter{buf: &bytes.Buffer{}, max: 1 << 16}
	cmd.Stderr = eb
	if err := cmd.Start(); err != nil {
		arena.RemoveAll(wbase)
		return nil, err
	}
	return &wproc{cmd: cmd, in: in, out: bufio.NewReaderSize(out, 1<<20), err: eb, base: wbase}, nil
}

type capWriter struct {
	mu  sync.Mutex
	buf *bytes.Buffer
	max int
}

// text returns what was captured so far and forgets it.
func (c *capWriter) text() string {
	c.mu.Lock()
	defer c.mu.Unlock()
	s := c.buf.String()
	c.buf.Reset()
	return s
}

func (c *capWriter) Write(p []byte) (int, error) {
	c.mu.Lock()
	defer c.mu.Unlock()
	if c.buf.Len() < c.max {
		c.buf.Write(p[:min(len(p), c.max-c.buf.Len())])
	}
	return len(p), nil
}

func (w *wproc) kill() {
	w.in.Close()
	w.cmd.Process.Kill()
	w.cmd.Wait()
	if w.base != "" {
		arena.RemoveAll(w.base)
	}
}

// call sends one case; returns the reply line or a synthetic status on hang/crash.
func (w *wproc) call(line []byte, timeout time.Duration) (reply []byte, status string) {
	if _, err := w.in.Write(append(line, '\n')); err != nil {
		return nil, "crash"
	}
	type res struct {
		b   []byte
		err error
	}
	ch := make(chan res, 1)
	go func() {
		b, err := w.out.ReadBytes('\n')
		ch <- res{b, err}
	}()
	select {
	case r := <-ch:
		if r.err != nil {
			return nil, "crash"
		}
		return r.b, ""
	case <-time.After(timeout):
		return nil, "hang"
	}
}

func entriesEq(a, b []uEntry) bool {
	if len(a) != len(b) {
		return false
	}
	for i := range a {
		x, y := a[i], b[i]
		if x.K != y.K || x.M != y.M || x.T != y.T || x.C != y.C || strings.Join(x.Name, "/") != strings.Join(y.Name, "/") ||
			strings.Join(x.Tgt, "/") != strings.Join(y.Tgt, "/") {
			return false
		}
	}
	return true
}

// predicted status names vs observed ones: the model's "diverge" (unbounded
// recursion) shows as a dead worker, "block" as a watchdog timeout.
func stEq(pred, obs string) bool {
	return pred == obs || (pred == "diverge" && (obs == "crash" || obs == "hang")) || (pred == "block" && obs == "hang")
}

func packMain() int {
	props := strings.Split(*flagProps, ",")
	var gammas []int64
	for _, s := range strings.Split(*flagGamma, ",") {
		n, _ := strconv.ParseInt(s, 10, 64)
		gammas = append(gammas, n)
	}
	fresh := *flagMode == "fresh"
	acc := cases.NewAcc("pack", *flagMis)
	workers := make([]*wproc, *flagWorkers)
	var seq int64
	timeout := 12 * time.Second
	cases.Lines(os.Stdin, os.Stderr, *flagWorkers, nil, func(w int, raw []byte) {
		var c pCase
		if err := json.Unmarshal(raw, &c); err != nil || c.Fam != "pack" {
			return
		}
		n := atomic.AddInt64(&seq, 1)
		c.Gamma = gammas[int(n)%len(gammas)]
		c.WFaults = *flagMode == "wfaults" && n%16 == 0
		var canon *pCanon
		if c.C16 {
			cc := c
			cc.Cwd, cc.Spelling, cc.Pre, cc.Conc = []string{"A"}, []string{"", "A", "src"}, nil, false
			cl, _ := json.Marshal(&cc)
			wp, err := startWorker()
			if err != nil {
				acc.Infra("worker start: " + err.Error())
				return
			}
			reply, status := wp.call(cl, timeout)
			wp.kill()
			canon = &pCanon{St: status, Out: []uEntry{}}
			if status == "" {
				var co pObs
				if err := json.Unmarshal(reply, &co); err != nil || co.St == "" {
					acc.Infra("canonical run: bad reply " + string(reply))
					return
				}
				canon = &pCanon{St: co.St, Out: co.Out}
			}
		}
		line, _ := json.Marshal(&c)
		if workers[w] == nil || fresh {
			if workers[w] != nil {
				workers[w].kill()
			}
			wp, err := startWorker()
			if err != nil {
				acc.Infra("worker start: " + err.Error())
				return
			}
			workers[w] = wp
		}
		reply, status := workers[w].call(line, timeout)
		var obs pObs
		if status != "" {
			tail := workers[w].err.text()
			workers[w].kill()
			workers[w] = nil
			obs = pObs{Tree: c.Tree, Src: c.Src, Cwd: c.Cwd, Spelling: c.Spelling, Opts: c.Opts, Rules: c.Rules, Lines: c.Lines, Pre: c.Pre,
				St: status, Out: []uEntry{}, Meta: pMeta{Files: [][]string{}, WfSilent: []int{}}, RT: pRT{St: "none", Fs: []arena.PN{}}, Gamma: c.Gamma}
			if len(tail) > 600 {
				tail = tail[:600]
			}
			obs.Err = tail
			if strings.Contains(tail, "DATA RACE") {
				obs.Race = true
			}
		} else {
			var inf struct {
				Infra string `json:"infra"`
			}
			if json.Unmarshal(reply, &inf) == nil && inf.Infra != "" {
				acc.Infra(inf.Infra)
				return
			}
			if err := json.Unmarshal(reply, &obs); err != nil {
				acc.Infra("bad reply: " + err.Error())
				return
			}
			if workers[w] != nil && strings.Contains(workers[w].err.text(), "DATA RACE") {
				obs.Race = true
			}
		}
		obs.Canon = canon
		// agreement with the prediction
		agree := stEq(c.St, obs.St)
		if c.C16 {
			agree = agree && (c.St != "ok" || entriesEq(c.Out, obs.Out)) && c.Canon != nil && stEq(c.Canon.St, canon.St) &&
				(canon.St != "ok" || entriesEq(c.Canon.Out, canon.Out))
		}
		if agree && c.St == "ok" && !c.C16 {
			agree = entriesEq(c.Out, obs.Out) && c.RT.St == obs.RT.St && arena.SameFS(arena.FromList(c.RT.Fs), arena.FromList(obs.RT.Fs))
			// meta: file list equals the predicted names; sizes equal the gamma table's sizes
			if agree {
				var want int64
				for _, e := range c.Out {
					if e.K == "f" {
						if e.C == arena.RuleFileC {
							want += int64(len(ruleText(c.Lines)))
						} else {
							want += int64(len(arena.Content(e.C)))
						}
					}
				}
				obs.SizeOK = obs.Meta.Size == want && obs.Meta.BodyBytes == want && obs.Meta.HdrSizes == want
				agree = obs.SizeOK && len(obs.Meta.Files) == len(c.Out) && len(obs.Meta.WfSilent) == 0
				acc.Extra("writer_fault_runs", int64(obs.Meta.WfRuns))
				for i := 0; agree && i < len(c.Out); i++ {
					agree = strings.Join(obs.Meta.Files[i], "/") == strings.Join(c.Out[i].Name, "/")
				}
			}
		}
		if obs.Race {
			agree = false
		}
		key, _ := json.Marshal(struct {
			T []arena.PN
			O pOpts
			L []string
			S []string
			C []string
			P []pPre
		}{c.Tree, c.Opts, c.Lines, c.Spelling, c.Cwd, c.Pre})
		acc.Count(true, agree, len(c.Out) >= 2, string(key))
		acc.Sample(dropKeys(raw, "tree", "v"), 3)
		acc.Extra("st_"+c.St, 1)
		if !agree {
			acc.Mismatch(&obs)
			return
		}
		for _, p := range props {
			if p == "" {
				continue
			}
			k := "c" + strings.TrimPrefix(strings.ToLower(p), "c")
			var ok bool
			if rawv, has := c.V[k]; !has || json.Unmarshal(rawv, &ok) != nil || ok {
				continue
			}
			var wit []string
			json.Unmarshal(c.V["w"+k[1:]], &wit)
			var kf string
			json.Unmarshal(c.V["kf"+k[1:]], &kf)
			ob, _ := json.Marshal(&obs)
			acc.Flag(cases.Flag{Prop: p, Witness: wit, KF: kf, Case: raw, Obs: ob, Gamma: c.Gamma})
		}
	})
	for _, w := range workers {
		if w != nil {
			w.kill()
		}
	}
	acc.Finish(os.Stdout)
	return 0
}

func dropKeys(raw []byte, keys ...string) json.RawMessage {
	var m map[string]json.RawMessage
	if json.Unmarshal(raw, &m) != nil {
		return raw
	}
	for _, k := range keys {
		delete(m, k)
	}
	b, _ := json.Marshal(m)
	return b
}
