package main

import (
	"bufio"
	"encoding/json"
	"fmt"
	"io"
	"os"
	"os/exec"
	"path/filepath"
	"sync"
	"syscall"
	"time"

	slug "github.com/hashicorp/go-slug"
)

// Unprivileged replay (C15: "root and an unprivileged uid, where permission
// bits actually bite").  The parent (root) builds the arena, hands every node
// to uid/gid 65534 and projects the outcome; slug.Unpack itself runs in a
// child process that has dropped to that uid, one child per replay worker.

const unprivID = 65534

func init() { families["unpackw"] = unpackWorker }

type uwJob struct {
	Dst string `json:"dst"`
	Tgz string `json:"tgz"`
}

type uwReply struct {
	St    string `json:"st"`
	Err   string `json:"err"`
	Panic string `json:"panic"`
	Euid  int    `json:"euid"`
}

func unpackWorker() int {
	sc := bufio.NewScanner(os.Stdin)
	sc.Buffer(make([]byte, 1<<16), 1<<24)
	w := bufio.NewWriter(os.Stdout)
	for sc.Scan() {
		var j uwJob
		rep := uwReply{Euid: os.Geteuid()}
		if err := json.Unmarshal(sc.Bytes(), &j); err != nil {
			rep.St, rep.Err = "infra", "bad job"
		} else if f, err := os.Open(j.Tgz); err != nil {
			rep.St, rep.Err = "infra", err.Error()
		} else {
			func() {
				defer f.Close()
				defer func() {
					if r := recover(); r != nil {
						rep.St, rep.Panic = "panic", fmt.Sprint(r)
					}
				}()
				uerr := slug.Unpack(f, j.Dst)
				rep.St = statusOf(uerr)
				if uerr != nil {
					rep.Err = uerr.Error()
				}
			}()
		}
		b, _ := json.Marshal(rep)
		w.Write(b)
		w.WriteByte('\n')
		w.Flush()
	}
	return 0
}

type uwproc struct {
	cmd *exec.Cmd
	in  io.WriteCloser
	out *bufio.Reader
}

var (
	uwMu    sync.Mutex
	uwProcs = map[int]*uwproc{}
	uwExe   string // a copy of this executable that the unprivileged id can reach and run
)

// uwPrepare copies the running executable into dir (world-traversable) and
// checks that a child under the unprivileged id starts and answers.  A non-empty
// result says why unprivileged replay is not possible in this environment.
func uwPrepare(dir string) string {
	if os.Geteuid() != 0 {
		return fmt.Sprintf("not started privileged (euid %d)", os.Geteuid())
	}
	src, err := os.ReadFile(os.Args[0])
	if err != nil {
		if exe, e2 := os.Executable(); e2 == nil {
			src, err = os.ReadFile(exe)
		}
	}
	if err != nil {
		return "cannot read own executable: " + err.Error()
	}
	uwExe = filepath.Join(dir, "vh-unpriv")
	if err := os.WriteFile(uwExe, src, 0755); err != nil {
		return "cannot place the executable: " + err.Error()
	}
	os.Chmod(uwExe, 0755)
	probe := filepath.Join(dir, "probe.tgz")
	os.WriteFile(probe, []byte{}, 0644)
	pd := filepath.Join(dir, "probe-dst")
	os.Mkdir(pd, 0755)
	os.Lchown(pd, unprivID, unprivID)
	if _, infra := unprivUnpack(-1, []byte{}, probe, pd); infra != "" {
		return infra
	}
	return ""
}

func uwGet(w int) (*uwproc, error) {
	uwMu.Lock()
	defer uwMu.Unlock()
	if p := uwProcs[w]; p != nil {
		return p, nil
	}
	if os.Geteuid() != 0 {
		return nil, fmt.Errorf("unprivileged replay needs to start privileged (euid %d)", os.Geteuid())
	}
	cmd := exec.Command(uwExe, "unpackw")
	cmd.SysProcAttr = &syscall.SysProcAttr{Credential: &syscall.Credential{Uid: unprivID, Gid: unprivID}}
	cmd.Dir = "/"
	cmd.Env = []string{"PATH=/usr/bin:/bin", "HOME=/", "TMPDIR=/tmp"}
	in, _ := cmd.StdinPipe()
	out, _ := cmd.StdoutPipe()
	if err := cmd.Start(); err != nil {
		return nil, err
	}
	p := &uwproc{cmd: cmd, in: in, out: bufio.NewReaderSize(out, 1<<16)}
	uwProcs[w] = p
	return p, nil
}

func uwStopAll() {
	uwMu.Lock()
	defer uwMu.Unlock()
	for w, p := range uwProcs {
		p.in.Close()
		done := make(chan struct{})
		go func() { p.cmd.Wait(); close(done) }()
		select {
		case <-done:
		case <-time.After(3 * time.Second):
			p.cmd.Process.Kill()
		}
		delete(uwProcs, w)
	}
}

// unprivUnpack runs slug.Unpack(tgz, dst) in worker w's unprivileged child.
func unprivUnpack(w int, tgz []byte, tgzPath, dst string) (*uwReply, string) {
	if err := os.WriteFile(tgzPath, tgz, 0644); err != nil {
		return nil, "job file: " + err.Error()
	}
	p, err := uwGet(w)
	if err != nil {
		return nil, "unprivileged child: " + err.Error()
	}
	b, _ := json.Marshal(uwJob{Dst: dst, Tgz: tgzPath})
	if _, err := p.in.Write(append(b, '\n')); err != nil {
		return nil, "unprivileged child: " + err.Error()
	}
	line, err := p.out.ReadBytes('\n')
	if err != nil {
		return nil, "unprivileged child: " + err.Error()
	}
	var rep uwReply
	if err := json.Unmarshal(line, &rep); err != nil {
		return nil, "unprivileged child: bad reply"
	}
	if rep.St == "infra" {
		return nil, "unprivileged child: " + rep.Err
	}
	if rep.Euid != unprivID {
		return nil, fmt.Sprintf("child runs with euid %d", rep.Euid)
	}
	return &rep, ""
}

// chownTree hands every node below (and including) root to the unprivileged id.
func chownTree(root string) error {
	return filepath.Walk(root, func(p string, fi os.FileInfo, err error) error {
		if err != nil {
			return err
		}
		return os.Lchown(p, unprivID, unprivID)
	})
}
