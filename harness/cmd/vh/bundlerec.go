package main

import (
	"bufio"
	"encoding/base64"
	"encoding/json"
	"fmt"
	"math/rand"
	"os"
	"sync"

	"verifh/internal/arena"
)

// Direction B for bundle manifests (C18 "mutated from valid ones", C19): a
// valid manifest document is rendered, its text is damaged by a few byte
// edits, and whatever OpenDir makes of it is probed with the forward and
// reverse lookups of the unmutated document plus the outside paths.

func init() { families["bundlerec"] = bundleRecMain }

const manifestAlphabet = "{}[]\":,0123456789adefglnorstuvx./\\ -_~@?=&%\t\n"

func bundleRecMain() int {
	n := *flagN
	if n <= 0 {
		n = 2000
	}
	seed := seedEnv()
	base, err := os.MkdirTemp(arena.ScratchBase(), "vh-bundlerec-")
	if err != nil {
		fmt.Fprintln(os.Stderr, err)
		return 2
	}
	defer arena.RemoveAll(base)
	out, err := os.Create(*flagOut)
	if err != nil {
		fmt.Fprintln(os.Stderr, err)
		return 2
	}
	defer out.Close()
	bw := bufio.NewWriterSize(out, 1<<20)
	defer bw.Flush()
	srcs := []string{"git::https://example.com/a.git", "git::https://example.com/b.git?ref=v1", "https://example.com/c.tgz", "git::ssh://example.com/d.git"}
	dirs := []string{"d1", "d2", "pkg", "x.y", "D1"}
	var mu sync.Mutex
	jobs := make(chan int, 256)
	var wg sync.WaitGroup
	for w := 0; w < *flagWorkers; w++ {
		wg.Add(1)
		go func() {
			defer wg.Done()
			for i := range jobs {
				r := rand.New(rand.NewSource(seed*32452843 + int64(i)))
				c := mCase{Fam: "bundle", Format: 1, Open: true, Pkgs: []mPkg{}, Regs: []mReg{}, Lookups: []mLookup{}}
				for k, m := 0, 1+r.Intn(3); k < m; k++ {
					p := mPkg{Source: srcs[r.Intn(len(srcs))], Local: dirs[r.Intn(len(dirs))]}
					c.Pkgs = append(c.Pkgs, p)
					c.Lookups = append(c.Lookups, mLookup{A: p.Source, Dir: p.Local, Present: true})
				}
				if r.Intn(2) == 0 {
					c.Regs = append(c.Regs, mReg{Source: "example.com/ns/name/sys", Version: "1.2.3", Target: c.Pkgs[0].Source + "//sub"})
				}
				c.Raw = "\x00render"
				runBundle(base, &c)
				b := []byte(c.Raw)
				for k, m := 0, 1+r.Intn(3); k < m && len(b) > 0; k++ {
					pos := r.Intn(len(b))
					switch r.Intn(7) {
					case 0:
						b = append(b[:pos], b[pos+1:]...)
					case 1:
						b = append(b[:pos], append([]byte{manifestAlphabet[r.Intn(len(manifestAlphabet))]}, b[pos:]...)...)
					case 2:
						b[pos] = manifestAlphabet[r.Intn(len(manifestAlphabet))]
					case 3: // replace a whole string value by a hostile one
						hostile := []string{"..", ".", "", "/", "../x", "a/b", "d1/..", " d1", ".. ", " ..", "D2", "d1/", "terraform-sources.json", "\\\\x", "d1\\u0000"}
						if q := indexFrom(b, '"', pos); q >= 0 {
							if e := indexFrom(b, '"', q+1); e > q {
								b = append(b[:q+1], append([]byte(hostile[r.Intn(len(hostile))]), b[e:]...)...)
							}
						}
					case 5, 6: // replace a whole object or array by another kind of JSON value
						open, close := byte('{'), byte('}')
						if r.Intn(2) == 0 {
							open, close = '[', ']'
						}
						if q := indexFrom(b, open, pos); q >= 0 {
							depth, e := 0, -1
							for i := q; i < len(b); i++ {
								if b[i] == open {
									depth++
								} else if b[i] == close {
									depth--
									if depth == 0 {
										e = i
										break
									}
								}
							}
							if e > q {
								v := []string{"null", "0", "true", "\"x\"", "[]", "{}", "[null]", "{\"source\":null}"}[r.Intn(8)]
								b = append(b[:q], append([]byte(v), b[e+1:]...)...)
							}
						}
					case 4: // duplicate a stretch (a key, an entry)
						end := pos + 1 + r.Intn(40)
						if end > len(b) {
							end = len(b)
						}
						b = append(b[:end], append(append([]byte{}, b[pos:end]...), b[end:]...)...)
					}
				}
				c.Raw = string(b)
				obs := runBundle(base, &c)
				// the damaged text travels base64-encoded (it need not be valid UTF-8, and the judge does not read it)
				c.RawB64, c.Raw = base64.StdEncoding.EncodeToString([]byte(c.Raw)), ""
				ob, _ := json.Marshal(obs)
				mu.Lock()
				bw.Write(ob)
				bw.WriteByte('\n')
				mu.Unlock()
			}
		}()
	}
	for i := 1; i <= n; i++ {
		jobs <- i
	}
	close(jobs)
	wg.Wait()
	fmt.Printf("@@RESULT {\"family\":\"bundlerec\",\"total\":%d,\"infra\":0}\n", n)
	return 0
}

func indexFrom(b []byte, c byte, from int) int {
	for i := from; i < len(b); i++ {
		if b[i] == c {
			return i
		}
	}
	return -1
}
