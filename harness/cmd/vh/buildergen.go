package main

import (
	"bufio"
	"encoding/json"
	"fmt"
	"math/rand"
	"os"
)

// Direction B for the Builder: random worlds that are larger than the
// enumerated ones (3 packages x 2 module locations x 2 finders, every
// artifact with up to 3 reported dependencies of all kinds, 2 registry
// packages with random version lists, 1-3 Add calls).  The cases carry no
// prediction: the builder replayer runs them against the scripted environment
// and every observation is judged by Judge_Builder (L0 VerdictW: closure,
// once-only counters, bracketing, version selection, manifest as a function).

func init() { families["buildergen"] = builderGenMain }

func builderGenMain() int {
	n := *flagN
	if n <= 0 {
		n = 1000
	}
	seed := seedEnv()
	w := bufio.NewWriterSize(os.Stdout, 1<<20)
	defer w.Flush()
	pkgs := []string{"P1", "P2", "P3"}
	subs := [][]string{{}, {"m"}}
	finders := []string{"F1", "F2"}
	regs := []string{"R1", "R2"}
	allowed := [][]int{{1, 2, 3}, {2}, {1, 3}, {2, 3}, {1, 2}}
	rels := []bRel{{Ups: 0, Names: []string{"m"}}, {Ups: 1, Names: []string{}}, {Ups: 0, Names: []string{}}, {Ups: 2, Names: []string{}}}
	for i := 1; i <= n; i++ {
		r := rand.New(rand.NewSource(seed*49979687 + int64(i)))
		randSrc := func(local bool) bSrc {
			switch k := r.Intn(10); {
			case k < 5:
				return bSrc{K: "rem", Pkg: pkgs[r.Intn(3)], Sub: subs[r.Intn(2)]}
			case k < 8 || !local:
				return bSrc{K: "reg", Rpkg: regs[r.Intn(2)], Sub: subs[r.Intn(2)], Allowed: allowed[r.Intn(len(allowed))]}
			default:
				rel := rels[r.Intn(len(rels))]
				return bSrc{K: "loc", Sub: []string{}, Rel: &rel}
			}
		}
		var c bCase
		c.Fam = "builder"
		for _, p := range pkgs {
			for _, s := range [][]string{{}, {"m"}, {"m", "m"}} {
				for _, f := range finders {
					var d struct {
						A    bArt   `json:"a"`
						D    []bArt `json:"d"`
						Diag string `json:"diag"`
					}
					d.A = bArt{Src: bSrc{K: "rem", Pkg: p, Sub: s}, F: f}
					d.D = []bArt{}
					d.Diag = "none"
					for k, m := 0, []int{0, 0, 1, 1, 2, 3}[r.Intn(6)]; k < m; k++ {
						a := bArt{Src: randSrc(true), F: finders[r.Intn(2)]}
						if len(s) == 2 && a.Src.K == "loc" && a.Src.Rel.Ups == 0 && len(a.Src.Rel.Names) > 0 {
							continue // the package template is two levels deep
						}
						d.D = append(d.D, a)
					}
					c.World.Deps = append(c.World.Deps, d)
				}
			}
			c.World.Fetch = append(c.World.Fetch, struct {
				P       string `json:"p"`
				Content int    `json:"content"`
				Meta    bool   `json:"meta"`
			}{p, 1 + r.Intn(2), r.Intn(2) == 0})
		}
		for _, rg := range regs {
			perm := r.Perm(3)
			var l []bVer
			for _, v := range perm[:1+r.Intn(3)] {
				l = append(l, bVer{V: v + 1, Dep: r.Intn(3) == 0})
			}
			c.World.Vers = append(c.World.Vers, struct {
				R string `json:"r"`
				L []bVer `json:"l"`
			}{rg, l})
			for v := 1; v <= 3; v++ {
				c.World.Srcs = append(c.World.Srcs, struct {
					R string `json:"r"`
					V int    `json:"v"`
					S bSrc   `json:"s"`
				}{rg, v, bSrc{K: "rem", Pkg: pkgs[r.Intn(3)], Sub: subs[r.Intn(2)]}})
			}
		}
		for k, m := 0, 1+r.Intn(3); k < m; k++ {
			c.Adds = append(c.Adds, bAdd{C: "c1", Add: bArt{Src: randSrc(false), F: finders[r.Intn(2)]}})
		}
		c.Events, c.Calls, c.Sched, c.Results = [][]interface{}{}, [][]interface{}{}, [][]string{}, []bResult{}
		c.Pkgs, c.Resolved, c.NeedRem, c.NeedReg = []bPkg{}, []bRes{}, []bNeedRem{}, []bNeedReg{}
		c.V = map[string]json.RawMessage{}
		c.Closed = true // the builder is closed after the Add calls
		b, _ := json.Marshal(&c)
		fmt.Fprintf(w, "@@%s\n", b)
	}
	return 0
}
