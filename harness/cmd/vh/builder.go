package main

import (
	"bytes"
	"context"
	"crypto/sha256"
	"encoding/hex"
	"encoding/json"
	"fmt"
	"io/fs"
	"math/rand"
	"net/url"
	"os"
	"path/filepath"
	"runtime"
	"sort"
	"strconv"
	"strings"
	"sync"
	"sync/atomic"
	"time"

	"github.com/apparentlymart/go-versions/versions"
	"github.com/hashicorp/go-slug/sourceaddrs"
	"github.com/hashicorp/go-slug/sourcebundle"
	regaddr "github.com/hashicorp/terraform-registry-address"

	"verifh/internal/arena"
	"verifh/internal/cases"
)

func init() { families["builder"] = builderMain }

type bRel struct {
	Ups   int      `json:"ups"`
	Names []string `json:"names"`
}

type bSrc struct {
	K       string   `json:"k"`
	Pkg     string   `json:"pkg,omitempty"`
	Rpkg    string   `json:"rpkg,omitempty"`
	Sub     []string `json:"sub"`
	Allowed []int    `json:"allowed,omitempty"`
	Rel     *bRel    `json:"rel,omitempty"`
}

type bArt struct {
	Src bSrc   `json:"src"`
	F   string `json:"f"`
}

type bAdd struct {
	C   string `json:"c"`
	Add bArt   `json:"add"`
}

type bVer struct {
	V   int  `json:"v"`
	Dep bool `json:"dep"`
}

type bWorld struct {
	Deps []struct {
		A    bArt   `json:"a"`
		D    []bArt `json:"d"`
		Diag string `json:"diag"`
	} `json:"deps"`
	Vers []struct {
		R string `json:"r"`
		L []bVer `json:"l"`
	} `json:"vers"`
	Srcs []struct {
		R string `json:"r"`
		V int    `json:"v"`
		S bSrc   `json:"s"`
	} `json:"srcs"`
	Fetch []struct {
		P       string `json:"p"`
		Content int    `json:"content"`
		Meta    bool   `json:"meta"`
	} `json:"fetch"`
}

type bResult struct {
	C       string          `json:"c"`
	Add     json.RawMessage `json:"add"`
	Refused bool            `json:"refused"`
	Err     bool            `json:"err"`
}

type bPkg struct {
	P    string `json:"p"`
	Dir  int    `json:"dir"`
	Meta bool   `json:"meta"`
}

type bRes struct {
	R   string `json:"r"`
	V   int    `json:"v"`
	S   bSrc   `json:"s"`
	Dep bool   `json:"dep"`
}

type bNeedRem struct {
	Pkg string   `json:"pkg"`
	Sub []string `json:"sub"`
}

type bNeedReg struct {
	Rpkg string   `json:"rpkg"`
	Sub  []string `json:"sub"`
	V    int      `json:"v"`
}

type bCase struct {
	Fam      string                     `json:"fam"`
	Adds     []bAdd                     `json:"adds"`
	World    bWorld                     `json:"world"`
	Events   [][]interface{}            `json:"events"`
	Calls    [][]interface{}            `json:"calls"`
	Sched    [][]string                 `json:"sched"`
	Results  []bResult                  `json:"results"`
	Poisoned bool                       `json:"poisoned"`
	Closed   bool                       `json:"closed"`
	Pkgs     []bPkg                     `json:"pkgs"`
	Resolved []bRes                     `json:"resolved"`
	NeedRem  []bNeedRem                 `json:"needrem"`
	NeedReg  []bNeedReg                 `json:"needreg"`
	V        map[string]json.RawMessage `json:"v"`
	rawAdds  json.RawMessage
	rawWorld json.RawMessage
}

type bObs struct {
	Adds         json.RawMessage `json:"adds"`
	World        json.RawMessage `json:"world"`
	DiagsOK      bool            `json:"diags_ok"`     // finder diagnostics reach the caller intact and rewritten
	ReopenDiff   []string        `json:"reopen_diff"`  // differences between the closed bundle and OpenDir of its directory
	ArchiveDiff  []string        `json:"archive_diff"` // differences after WriteArchive / ExtractArchive
	diagRet      int
	Events       [][]interface{} `json:"events"`
	Calls        [][]interface{} `json:"calls"`
	Results      []bResult       `json:"results"`
	BundleOK     bool            `json:"bundle_ok"`
	CloseErr     string          `json:"close_err"`
	Pkgs         []bPkg          `json:"pkgs"`
	Resolved     []bRes          `json:"resolved"`
	LookupBad    []string        `json:"lookup_bad"`    // C08 lookups that fail their expectation
	RefusedAfter bool            `json:"refused_after"` // after an error every further use panics
	EarlyOpen    int             `json:"early_open"`    // times the target opened as a bundle before Close
	TmpLeft      int             `json:"tmp_left"`
	Unscripted   []string        `json:"unscripted"`
	ManifestSame bool            `json:"manifest_same"` // identical bytes over repeated identical builds
	CanonSame    bool            `json:"canon_same"`    // identical to the build with the adds in canonical order
	DirsOK       bool            `json:"dirs_ok"`       // same content <=> same directory
	ConcSame     bool            `json:"conc_same"`     // concurrent Add calls give the same bundle as sequential ones
	ConcWhy      string          `json:"conc_why"`
	Gamma        int64           `json:"gamma"`
	Manifest     string          `json:"manifest_sha"`
	Panic        string          `json:"panic"`
}

// ---- concretisation ----
type bGamma struct{ seed int64 }

func (g bGamma) remote(s bSrc) sourceaddrs.RemoteSource {
	var a string
	if g.seed%2 == 0 {
		a = "git::https://example.com/" + strings.ToLower(s.Pkg) + ".git"
	} else {
		a = "https://example.com/dl/" + strings.ToLower(s.Pkg) + ".tgz"
	}
	if len(s.Sub) > 0 {
		a += "//" + strings.Join(s.Sub, "/")
	}
	if g.seed%3 == 2 && g.seed%2 == 0 {
		a += "?ref=main"
	}
	r, err := sourceaddrs.ParseRemoteSource(a)
	if err != nil {
		panic(err)
	}
	return r
}

func (g bGamma) registry(s bSrc) sourceaddrs.RegistrySource {
	a := "example.com/ns/" + strings.ToLower(s.Rpkg) + "/aws"
	if g.seed%2 == 1 {
		a = "ns/" + strings.ToLower(s.Rpkg) + "/aws"
	}
	if len(s.Sub) > 0 {
		a += "//" + strings.Join(s.Sub, "/")
	}
	r, err := sourceaddrs.ParseRegistrySource(a)
	if err != nil {
		panic(err)
	}
	return r
}

var verTables = [][]string{
	{"", "1.0.0", "2.0.0", "3.0.0", "4.0.0"},
	{"", "0.9.0", "1.0.0-rc.1", "1.0.0", "1.0.1"},
	{"", "1.2.3-alpha", "1.2.3-beta.2", "1.2.3", "1.10.0"},
}

// Every third concretisation carries build metadata on each version: metadata takes no part in precedence, so the
// model's order of versions is unchanged, but the version strings written to and read from the manifest must keep it.
func (g bGamma) ver(i int) versions.Version {
	s := verTables[int(g.seed)%len(verTables)][i]
	if g.seed%3 == 1 && s != "" {
		s += fmt.Sprintf("+build.%d", i)
	}
	return versions.MustParseVersion(s)
}

func (g bGamma) verBack(v versions.Version) int {
	for i := 1; i < 5; i++ {
		if g.ver(i).Same(v) {
			return i
		}
	}
	return -1
}

// vset renders an allowed set. Where the abstract set is "everything" or an upper range it is
// given by membership (versions.All / AtLeast) rather than by enumeration, after checking on the
// version table that membership is what the abstract set says.
func (g bGamma) vset(al []int) versions.Set {
	vs := []versions.Version{}
	in := map[int]bool{}
	for _, i := range al {
		vs = append(vs, g.ver(i))
		in[i] = true
	}
	sel := versions.Selection(vs...)
	if g.seed%2 == 1 || len(al) == 0 {
		return sel
	}
	var cand versions.Set
	switch {
	case in[1] && in[2] && in[3]:
		cand = versions.All
	case !in[1] && in[2] && in[3]:
		cand = versions.AtLeast(g.ver(2))
	default:
		return sel
	}
	for i := 1; i <= 3; i++ {
		if cand.Has(g.ver(i)) != in[i] {
			return sel
		}
	}
	return cand
}

// addRegistry adds a registry source; a request that pins exactly one version is made, on odd name tables, with the
// already-versioned form of the address (AddFinalRegistrySource), which must behave like the pinned request.
func (e *bEnv) addRegistry(ctx context.Context, b *sourcebundle.Builder, a bArt) sourcebundle.Diagnostics {
	if len(a.Src.Allowed) == 1 && e.g.seed%2 == 1 {
		return b.AddFinalRegistrySource(ctx, e.g.registry(a.Src).Versioned(e.g.ver(a.Src.Allowed[0])), bFinder{e, a.F})
	}
	return b.AddRegistrySource(ctx, e.g.registry(a.Src), e.g.vset(a.Src.Allowed), bFinder{e, a.F})
}

func pkgName(p sourceaddrs.RemotePackage) string {
	b := filepath.Base(p.URL().Path)
	b = strings.TrimSuffix(strings.TrimSuffix(b, ".git"), ".tgz")
	return strings.ToUpper(b)
}
func regName(p regaddr.ModulePackage) string { return strings.ToUpper(p.Name) }

// the package tree template: these sub-paths exist
var templateDirs = map[string]bool{"": true, "m": true, "m/m": true}
var templateFiles = map[string]bool{"main": true, "m/f": true, "m/m/g": true}

// ---- scripted environment ----
type bEnv struct {
	c       *bCase
	g       bGamma
	dir     string
	cur     string
	obs     *bObs
	fetchQ  map[string][]string
	versQ   map[string][]string
	srcQ    map[string][]string
	checkEO bool
	yield   bool
	fetchN  map[string]int
	mu      sync.Mutex
}

func (e *bEnv) ev(xs ...interface{})   { e.obs.Events = append(e.obs.Events, xs) }
func (e *bEnv) call(xs ...interface{}) { e.obs.Calls = append(e.obs.Calls, xs) }
func (e *bEnv) boundary() {
	if e.yield {
		// free-running concurrent builds: shake the Go scheduler at every callback
		for i := 0; i < rand.Intn(4); i++ {
			runtime.Gosched()
		}
	}
	// crash point: the directory under construction must not open as a bundle
	if _, err := sourcebundle.OpenDir(e.dir); err == nil {
		e.obs.EarlyOpen++
	}
}

func pop(q map[string][]string, k string) string {
	if len(q[k]) == 0 {
		return "ok"
	}
	x := q[k][0]
	q[k] = q[k][1:]
	return x
}

type bFinder struct {
	e  *bEnv
	id string
}

type bDiag struct {
	sev  sourcebundle.DiagSeverity
	file string
}

func (d bDiag) Severity() sourcebundle.DiagSeverity { return d.sev }
func (d bDiag) Description() sourcebundle.DiagDescription {
	return sourcebundle.DiagDescription{Summary: "finder diagnostic", Detail: "reported by the scripted finder"}
}
func (d bDiag) Source() sourcebundle.DiagSource {
	return sourcebundle.DiagSource{
		Subject: &sourcebundle.SourceRange{Filename: d.file, Start: sourcebundle.SourcePos{Line: 3, Column: 1, Byte: 20}, End: sourcebundle.SourcePos{Line: 3, Column: 9, Byte: 28}},
		Context: &sourcebundle.SourceRange{Filename: "main", Start: sourcebundle.SourcePos{Line: 1, Column: 1, Byte: 0}, End: sourcebundle.SourcePos{Line: 9, Column: 1, Byte: 90}},
	}
}

// diagIntact: the ranges a finder diagnostic carries after the builder wrapped it
func diagIntact(d sourcebundle.Diagnostic) bool {
	src := d.Source()
	if src.Subject == nil || src.Context == nil {
		return false
	}
	ps, perr := sourceaddrs.ParseRemoteSource(src.Subject.Filename)
	pc, cerr := sourceaddrs.ParseRemoteSource(src.Context.Filename)
	return perr == nil && cerr == nil && ps.SubPath() == "m/f" && pc.SubPath() == "main" && ps.Package() == pc.Package() &&
		src.Subject.Start.Line == 3 && src.Subject.End.Byte == 28 && src.Context.Start.Line == 1 && src.Context.End.Byte == 90
}
func (d bDiag) ExtraInfo() interface{} { return nil }

func (f bFinder) FindDependencies(fsys fs.FS, subPath string, deps *sourcebundle.Dependencies) sourcebundle.Diagnostics {
	e := f.e
	e.boundary()
	e.call("Analyze", e.cur, subSeq(subPath), f.id)
	// the file system handed to the finder must be the package that is being analysed
	if _, err := fs.Stat(fsys, "main"); err != nil {
		e.obs.Unscripted = append(e.obs.Unscripted, "finder got a filesystem without the package's files: "+err.Error())
	}
	for _, d := range e.c.World.Deps {
		if d.A.F == f.id && d.A.Src.Pkg == e.cur && strings.Join(d.A.Src.Sub, "/") == subPath {
			for _, dep := range d.D {
				nf := bFinder{e, dep.F}
				switch dep.Src.K {
				case "rem":
					deps.AddRemoteSource(e.g.remote(dep.Src), nf)
				case "reg":
					deps.AddRegistrySource(e.g.registry(dep.Src), e.g.vset(dep.Src.Allowed), nf)
				case "loc":
					s := strings.Repeat("../", dep.Src.Rel.Ups) + strings.Join(dep.Src.Rel.Names, "/")
					if dep.Src.Rel.Ups == 0 {
						s = "./" + s
					} else if len(dep.Src.Rel.Names) == 0 && dep.Src.Rel.Ups > 1 {
						s = strings.TrimSuffix(s, "/")
					}
					ls, err := sourceaddrs.ParseLocalSource(s)
					if err != nil {
						e.obs.Unscripted = append(e.obs.Unscripted, "bad local rel "+s+": "+err.Error())
						continue
					}
					deps.AddLocalSource(ls, nf)
				}
			}
			switch d.Diag {
			case "warn":
				return sourcebundle.Diagnostics{bDiag{sourcebundle.DiagWarning, "m/f"}}
			case "err":
				return sourcebundle.Diagnostics{bDiag{sourcebundle.DiagError, "m/f"}}
			}
			return nil
		}
	}
	e.obs.Unscripted = append(e.obs.Unscripted, fmt.Sprintf("analysis of %s//%s by %s", e.cur, subPath, f.id))
	return nil
}

func subSeq(s string) []interface{} {
	out := []interface{}{}
	if s == "" {
		return out
	}
	for _, p := range strings.Split(s, "/") {
		out = append(out, p)
	}
	return out
}

func (e *bEnv) FetchSourcePackage(ctx context.Context, sourceType string, u *url.URL, targetDir string) (sourcebundle.FetchSourcePackageResponse, error) {
	e.boundary()
	name := strings.ToUpper(strings.TrimSuffix(strings.TrimSuffix(filepath.Base(u.Path), ".git"), ".tgz"))
	if e.yield {
		// free-running concurrent builds: a fetch takes a while, and every package is fetched at most once
		e.mu.Lock()
		if e.fetchN == nil {
			e.fetchN = map[string]int{}
		}
		e.fetchN[name]++
		e.mu.Unlock()
		time.Sleep(500 * time.Microsecond)
	}
	if pop(e.fetchQ, name) == "fail" {
		e.call("Fetch", name, "fail")
		return sourcebundle.FetchSourcePackageResponse{}, fmt.Errorf("scripted fetch failure")
	}
	e.call("Fetch", name, "ok")
	for _, f := range e.c.World.Fetch {
		if f.P == name {
			os.MkdirAll(filepath.Join(targetDir, "m", "m"), 0755)
			body := bodyOf(f.Content)
			for file := range templateFiles {
				os.WriteFile(filepath.Join(targetDir, file), []byte(fmt.Sprintf("content-%d of %s", body, file)), 0644)
			}
			if f.Content == 3 || f.Content == 5 {
				os.WriteFile(filepath.Join(targetDir, ".terraformignore"), []byte(fmt.Sprintf("# rule file of variant %d\n", f.Content)), 0644)
			}
			if f.Content%2 == 0 {
				// links, an empty directory and odd modes travel with this content id
				os.Symlink("main", filepath.Join(targetDir, "lnk"))
				os.Symlink("../main", filepath.Join(targetDir, "m", "up"))
				// link targets that are not in their shortest form must survive as written
				os.Symlink("./main", filepath.Join(targetDir, "lnk2"))
				os.Symlink("../m/../main", filepath.Join(targetDir, "m", "up2"))
				os.Mkdir(filepath.Join(targetDir, "empty"), 0750)
				os.WriteFile(filepath.Join(targetDir, "exe"), []byte(fmt.Sprintf("content-%d exe", f.Content)), 0755)
				os.Chmod(filepath.Join(targetDir, "m", "f"), 0600)
				// permission bits that are all zero are permission bits too
				os.WriteFile(filepath.Join(targetDir, "zero"), []byte(fmt.Sprintf("content-%d zero", f.Content)), 0644)
				os.Chmod(filepath.Join(targetDir, "zero"), 0)
				os.Mkdir(filepath.Join(targetDir, "m", "hollow"), 0755) // an empty directory that is not at the package root
				// names that look like editor or operating-system companions are ordinary package files
				os.WriteFile(filepath.Join(targetDir, "._main"), []byte(fmt.Sprintf("content-%d companion", f.Content)), 0644)
				os.WriteFile(filepath.Join(targetDir, "m", "._f"), []byte(fmt.Sprintf("content-%d companion of f", f.Content)), 0644)
				os.Mkdir(filepath.Join(targetDir, "zdir"), 0755)
				os.Chmod(filepath.Join(targetDir, "zdir"), 0)
				// a package that keeps what the built-in rules exclude, through its own rule file
				os.WriteFile(filepath.Join(targetDir, ".terraformignore"), []byte("!.git/\n!.terraform/\n"), 0644)
				os.MkdirAll(filepath.Join(targetDir, ".git"), 0755)
				os.WriteFile(filepath.Join(targetDir, ".git", "keep"), []byte(fmt.Sprintf("content-%d git", f.Content)), 0644)
				os.MkdirAll(filepath.Join(targetDir, "m", ".terraform", "x"), 0755)
				os.WriteFile(filepath.Join(targetDir, "m", ".terraform", "x", "state"), []byte(fmt.Sprintf("content-%d tf", f.Content)), 0644)
			}
			var resp sourcebundle.FetchSourcePackageResponse
			if f.Meta {
				resp.PackageMeta = sourcebundle.PackageMetaWithGitMetadata("commit-of-"+name, "message of "+name)
			} else if e.g.seed%2 == 1 {
				// "no metadata" may also arrive as a metadata object that names no commit: nothing of it is recorded,
				// so the closed bundle, the re-opened one and the extracted one must all report none
				resp.PackageMeta = sourcebundle.PackageMetaWithGitMetadata("", "only a message")
			}
			return resp, nil
		}
	}
	e.obs.Unscripted = append(e.obs.Unscripted, "fetch of "+name)
	return sourcebundle.FetchSourcePackageResponse{}, fmt.Errorf("unscripted fetch")
}

func (e *bEnv) ModulePackageVersions(ctx context.Context, p regaddr.ModulePackage) (sourcebundle.ModulePackageVersionsResponse, error) {
	e.boundary()
	var ret sourcebundle.ModulePackageVersionsResponse
	r := regName(p)
	if pop(e.versQ, r) == "fail" {
		e.call("Versions", r, "fail")
		return ret, fmt.Errorf("scripted registry failure")
	}
	e.call("Versions", r, "ok")
	for _, v := range e.c.World.Vers {
		if v.R == r {
			for _, x := range v.L {
				info := sourcebundle.ModulePackageInfo{Version: e.g.ver(x.V)}
				if x.Dep {
					info.Deprecation = &sourcebundle.ModulePackageVersionDeprecation{Reason: fmt.Sprintf("deprecated-%s-%d", r, x.V), Link: "https://example.com/why"}
				}
				ret.Versions = append(ret.Versions, info)
			}
			// every third concretisation lists its first version twice: the set of offered versions is the same
			if e.g.seed%3 == 2 && len(ret.Versions) >= 2 {
				ret.Versions = append(ret.Versions, ret.Versions[0])
			}
			return ret, nil
		}
	}
	e.obs.Unscripted = append(e.obs.Unscripted, "versions of "+r)
	return ret, fmt.Errorf("unscripted versions")
}

func (e *bEnv) ModulePackageSourceAddr(ctx context.Context, p regaddr.ModulePackage, v versions.Version) (sourcebundle.ModulePackageSourceAddrResponse, error) {
	e.boundary()
	r := regName(p)
	vi := e.g.verBack(v)
	key := fmt.Sprintf("%s@%d", r, vi)
	if pop(e.srcQ, key) == "fail" {
		e.call("Source", r, float64(vi), "fail")
		return sourcebundle.ModulePackageSourceAddrResponse{}, fmt.Errorf("scripted registry failure")
	}
	e.call("Source", r, float64(vi), "ok")
	for _, s := range e.c.World.Srcs {
		if s.R == r && s.V == vi {
			return sourcebundle.ModulePackageSourceAddrResponse{SourceAddr: e.g.remote(s.S)}, nil
		}
	}
	e.obs.Unscripted = append(e.obs.Unscripted, "source of "+key)
	return sourcebundle.ModulePackageSourceAddrResponse{}, fmt.Errorf("unscripted source")
}

func (e *bEnv) tracer() *sourcebundle.BuildTracer {
	g := e.g
	vf := func(v versions.Version) float64 { return float64(g.verBack(v)) }
	return &sourcebundle.BuildTracer{
		RegistryPackageVersionsStart: func(ctx context.Context, p regaddr.ModulePackage) context.Context {
			e.ev("VersStart", regName(p))
			return ctx
		},
		RegistryPackageVersionsSuccess: func(ctx context.Context, p regaddr.ModulePackage, vs versions.List) { e.ev("VersSuccess", regName(p)) },
		RegistryPackageVersionsFailure: func(ctx context.Context, p regaddr.ModulePackage, err error) { e.ev("VersFailure", regName(p)) },
		RegistryPackageVersionsAlready: func(ctx context.Context, p regaddr.ModulePackage, vs versions.List) { e.ev("VersAlready", regName(p)) },
		RegistryPackageSourceStart: func(ctx context.Context, p regaddr.ModulePackage, v versions.Version) context.Context {
			e.ev("SrcStart", regName(p), vf(v))
			return ctx
		},
		RegistryPackageSourceSuccess: func(ctx context.Context, p regaddr.ModulePackage, v versions.Version, s sourceaddrs.RemoteSource) {
			e.ev("SrcSuccess", regName(p), vf(v))
		},
		RegistryPackageSourceFailure: func(ctx context.Context, p regaddr.ModulePackage, v versions.Version, err error) {
			e.ev("SrcFailure", regName(p), vf(v))
		},
		RegistryPackageSourceAlready: func(ctx context.Context, p regaddr.ModulePackage, v versions.Version, s sourceaddrs.RemoteSource) {
			e.ev("SrcAlready", regName(p), vf(v))
		},
		RemotePackageDownloadStart: func(ctx context.Context, p sourceaddrs.RemotePackage) context.Context {
			e.cur = pkgName(p)
			e.ev("FetchStart", pkgName(p))
			return ctx
		},
		RemotePackageDownloadSuccess: func(ctx context.Context, p sourceaddrs.RemotePackage) { e.ev("FetchSuccess", pkgName(p)) },
		RemotePackageDownloadFailure: func(ctx context.Context, p sourceaddrs.RemotePackage, err error) { e.ev("FetchFailure", pkgName(p)) },
		RemotePackageDownloadAlready: func(ctx context.Context, p sourceaddrs.RemotePackage) {
			e.cur = pkgName(p)
			e.ev("FetchAlready", pkgName(p))
		},
		Diagnostics: func(ctx context.Context, diags sourcebundle.Diagnostics) {
			for _, d := range diags {
				sev := "warn"
				if d.Severity() == sourcebundle.DiagError {
					sev = "err"
				}
				// the file name must have been rewritten to an address inside the analysed package
				want := ""
				if !diagIntact(d) {
					e.obs.DiagsOK = false
				}
				if p, err := sourceaddrs.ParseRemoteSource(d.Source().Subject.Filename); err == nil {
					want = pkgName(p.Package())
					if p.SubPath() != "m/f" {
						want += "?" + p.SubPath()
					}
				}
				e.ev("Diag", want, sev)
			}
		},
	}
}

func newEnv(c *bCase, g bGamma, dir string) *bEnv {
	e := &bEnv{c: c, g: g, dir: dir, obs: &bObs{Adds: c.rawAdds, World: c.rawWorld, DiagsOK: true, Events: [][]interface{}{}, Calls: [][]interface{}{},
		Results: []bResult{}, Pkgs: []bPkg{}, Resolved: []bRes{}, LookupBad: []string{}, Unscripted: []string{}, ReopenDiff: []string{}, ArchiveDiff: []string{}, Gamma: g.seed},
		fetchQ: map[string][]string{}, versQ: map[string][]string{}, srcQ: map[string][]string{}}
	for _, cl := range c.Calls {
		if len(cl) < 3 {
			continue
		}
		name, _ := cl[0].(string)
		switch name {
		case "Fetch":
			e.fetchQ[cl[1].(string)] = append(e.fetchQ[cl[1].(string)], cl[2].(string))
		case "Versions":
			e.versQ[cl[1].(string)] = append(e.versQ[cl[1].(string)], cl[2].(string))
		case "Source":
			k := fmt.Sprintf("%s@%d", cl[1].(string), int(cl[2].(float64)))
			e.srcQ[k] = append(e.srcQ[k], cl[3].(string))
		}
	}
	return e
}

// build runs the adds in the given order and closes; returns the bundle (or nil).
func (e *bEnv) build(adds []bAdd, wantClose bool) *sourcebundle.Bundle {
	b, err := sourcebundle.NewBuilder(e.dir, e, e)
	if err != nil {
		e.obs.Panic = "NewBuilder: " + err.Error()
		return nil
	}
	ctx := e.tracer().OnContext(context.Background())
	anyErr := false
	doAdd := func(a bArt) (refused bool, diags sourcebundle.Diagnostics) {
		defer func() {
			if r := recover(); r != nil {
				if s := fmt.Sprint(r); strings.Contains(s, "closed sourcebundle.Builder") {
					refused = true
				} else {
					e.obs.Panic = s
				}
			}
		}()
		if a.Src.K == "rem" {
			diags = b.AddRemoteSource(ctx, e.g.remote(a.Src), bFinder{e, a.F})
		} else {
			diags = e.addRegistry(ctx, b, a)
		}
		return
	}
	for _, a := range adds {
		refused, diags := doAdd(a.Add)
		raw, _ := json.Marshal(a.Add)
		for _, d := range diags {
			if d.Description().Summary != "finder diagnostic" {
				continue
			}
			e.obs.diagRet++
			if d.Description().Detail != "reported by the scripted finder" || !diagIntact(d) {
				e.obs.DiagsOK = false
			}
		}
		res := bResult{C: a.C, Add: raw, Refused: refused, Err: diags.HasErrors()}
		e.obs.Results = append(e.obs.Results, res)
		anyErr = anyErr || res.Err
		e.boundary()
	}
	if anyErr {
		// every further use must be refused
		r1, _ := doAdd(bArt{Src: bSrc{K: "rem", Pkg: "P1", Sub: []string{}}, F: "F1"})
		r2 := func() (refused bool) {
			defer func() {
				if r := recover(); r != nil {
					refused = true
				}
			}()
			if bd, err := b.Close(); err == nil && bd != nil {
				e.obs.BundleOK = true
			}
			return false
		}()
		e.obs.RefusedAfter = r1 && r2
		return nil
	}
	e.obs.RefusedAfter = true
	if !wantClose {
		return nil
	}
	bundle, err := b.Close()
	if err != nil {
		e.obs.CloseErr = err.Error()
		return nil
	}
	e.obs.BundleOK = true
	return bundle
}

// ---- forced schedules: the order in which concurrent callers pass the builder's lock sites is TLC's ----

type schedKey struct{}

type schedCtx struct {
	s      *scheduler
	caller string
}

type schedItem struct{ caller, site string }

type scheduler struct {
	mu      sync.Mutex
	cond    *sync.Cond
	items   []schedItem
	ptr     int
	running string
	stuck   bool
}

func newScheduler(sched [][]string) *scheduler {
	s := &scheduler{}
	s.cond = sync.NewCond(&s.mu)
	for _, it := range sched {
		if len(it) == 2 && (it[1] == "push" || it[1] == "drain") {
			s.items = append(s.items, schedItem{it[0], it[1]})
		}
	}
	return s
}

// gate: the caller reached a lock site. Whatever it was granted before is finished; it now waits for its turn.
func (s *scheduler) gate(caller, site string) {
	s.mu.Lock()
	defer s.mu.Unlock()
	if s.running == caller {
		s.running = ""
		s.ptr++
		s.cond.Broadcast()
	}
	deadline := time.Now().Add(10 * time.Second)
	for !s.stuck && !(s.running == "" && s.ptr < len(s.items) && s.items[s.ptr] == schedItem{caller, site}) {
		if time.Now().After(deadline) {
			s.stuck = true
			s.cond.Broadcast()
			break
		}
		// wake up periodically to notice the deadline
		go func() { time.Sleep(200 * time.Millisecond); s.cond.Broadcast() }()
		s.cond.Wait()
	}
	s.running = caller
}

// release: the caller's Add call returned.
func (s *scheduler) release(caller string) {
	s.mu.Lock()
	if s.running == caller {
		s.running = ""
		s.ptr++
	}
	s.cond.Broadcast()
	s.mu.Unlock()
}

var schedHookOnce sync.Once

func installSchedHook() {
	schedHookOnce.Do(func() {
		sourcebundle.VerifSched = func(ctx context.Context, site string) {
			sc, ok := ctx.Value(schedKey{}).(*schedCtx)
			if !ok || (site != "push" && site != "drain") {
				return
			}
			sc.s.gate(sc.caller, site)
		}
	})
}

// buildScheduled runs each caller's Add calls in its own goroutine and forces the lock-site order of c.Sched.
func (e *bEnv) buildScheduled(c *bCase) (*sourcebundle.Bundle, bool) {
	installSchedHook()
	b, err := sourcebundle.NewBuilder(e.dir, e, e)
	if err != nil {
		e.obs.Panic = "NewBuilder: " + err.Error()
		return nil, true
	}
	s := newScheduler(c.Sched)
	base := e.tracer().OnContext(context.Background())
	callers := map[string][]bArt{}
	var order []string
	for _, a := range c.Adds {
		if _, ok := callers[a.C]; !ok {
			order = append(order, a.C)
		}
		callers[a.C] = append(callers[a.C], a.Add)
	}
	var wg sync.WaitGroup
	var resMu sync.Mutex
	anyErr := false
	for _, cl := range order {
		wg.Add(1)
		go func(cl string, adds []bArt) {
			defer wg.Done()
			ctx := context.WithValue(base, schedKey{}, &schedCtx{s, cl})
			for _, a := range adds {
				var diags sourcebundle.Diagnostics
				refused := false
				func() {
					defer func() {
						if r := recover(); r != nil {
							refused = true
						}
					}()
					if a.Src.K == "rem" {
						diags = b.AddRemoteSource(ctx, e.g.remote(a.Src), bFinder{e, a.F})
					} else {
						diags = e.addRegistry(ctx, b, a)
					}
				}()
				resMu.Lock()
				raw, _ := json.Marshal(a)
				e.obs.Results = append(e.obs.Results, bResult{C: cl, Add: raw, Refused: refused, Err: diags.HasErrors()})
				anyErr = anyErr || diags.HasErrors()
				resMu.Unlock()
				s.release(cl)
			}
		}(cl, callers[cl])
	}
	wg.Wait()
	e.obs.RefusedAfter = true
	if s.stuck {
		return nil, false
	}
	if anyErr {
		return nil, true
	}
	bundle, err := b.Close()
	if err != nil {
		e.obs.CloseErr = err.Error()
		return nil, true
	}
	e.obs.BundleOK = true
	return bundle, true
}

// buildConcurrent issues every Add from its own goroutine on one builder.
func (e *bEnv) buildConcurrent(adds []bAdd) *sourcebundle.Bundle {
	b, err := sourcebundle.NewBuilder(e.dir, e, e)
	if err != nil {
		return nil
	}
	ctx := e.tracer().OnContext(context.Background())
	var wg sync.WaitGroup
	var failed int32
	for _, a := range adds {
		wg.Add(1)
		go func(a bArt) {
			defer wg.Done()
			defer func() {
				if r := recover(); r != nil {
					atomic.StoreInt32(&failed, 1)
				}
			}()
			for i := 0; i < rand.Intn(3); i++ {
				runtime.Gosched()
			}
			var diags sourcebundle.Diagnostics
			if a.Src.K == "rem" {
				diags = b.AddRemoteSource(ctx, e.g.remote(a.Src), bFinder{e, a.F})
			} else {
				diags = e.addRegistry(ctx, b, a)
			}
			if diags.HasErrors() {
				atomic.StoreInt32(&failed, 1)
			}
		}(a.Add)
	}
	wg.Wait()
	if failed != 0 {
		return nil
	}
	bundle, err := b.Close()
	if err != nil {
		return nil
	}
	return bundle
}

func normResults(rs []bResult) string {
	// the model logs one result per add that ran to its end; "add" payloads are not compared
	var parts []string
	for _, r := range rs {
		parts = append(parts, fmt.Sprintf("%s/%v/%v", r.C, r.Refused, r.Err))
	}
	return strings.Join(parts, ",")
}

func manifestOf(dir string) (string, []byte) {
	b, err := os.ReadFile(filepath.Join(dir, "terraform-sources.json"))
	if err != nil {
		return "", nil
	}
	h := sha256.Sum256(b)
	return hex.EncodeToString(h[:]), b
}

// bodyOf: the text the template files carry for a content id. Contents 3 and 5 are the same files except for the
// package's own rule file.
func bodyOf(content int) int {
	if content == 5 {
		return 3
	}
	return content
}

func (e *bEnv) inspect(bundle *sourcebundle.Bundle) {
	c, g, obs := e.c, e.g, e.obs
	content := map[string]int{}
	for _, f := range c.World.Fetch {
		content[f.P] = f.Content
	}
	_, mb := manifestOf(e.dir)
	var mf struct {
		Packages []struct {
			Source string `json:"source"`
			Local  string `json:"local"`
		} `json:"packages"`
	}
	json.Unmarshal(mb, &mf)
	dirOf := map[string]string{}
	for _, p := range mf.Packages {
		if ps, err := sourceaddrs.ParseRemotePackage(p.Source); err == nil {
			dirOf[pkgName(ps)] = p.Local
		}
	}
	obs.DirsOK = true
	for _, p := range bundle.RemotePackages() {
		n := pkgName(p)
		obs.Pkgs = append(obs.Pkgs, bPkg{P: n, Dir: content[n], Meta: bundle.RemotePackageMeta(p) != nil})
		for _, f := range c.World.Fetch {
			if f.P == n && f.Meta != (bundle.RemotePackageMeta(p) != nil) {
				obs.LookupBad = append(obs.LookupBad, fmt.Sprintf("metadata of %s: supplied by the fetcher=%v, retrievable=%v", n, f.Meta, !f.Meta))
			}
		}
		if m := bundle.RemotePackageMeta(p); m != nil && (m.GitCommitID() != "commit-of-"+n || m.GitCommitMessage() != "message of "+n) {
			obs.LookupBad = append(obs.LookupBad, "meta of "+n+" changed")
		}
		for _, q := range bundle.RemotePackages() {
			m := pkgName(q)
			if (dirOf[n] == dirOf[m]) != (content[n] == content[m]) {
				obs.DirsOK = false
			}
		}
	}
	sort.Slice(obs.Pkgs, func(i, j int) bool { return obs.Pkgs[i].P < obs.Pkgs[j].P })
	for _, rp := range bundle.RegistryPackages() {
		for _, v := range bundle.RegistryPackageVersions(rp) {
			sa, _ := bundle.RegistryPackageSourceAddr(rp, v)
			sub := []string{}
			if sa.SubPath() != "" {
				sub = strings.Split(sa.SubPath(), "/")
			}
			dep := bundle.RegistryPackageVersionDeprecation(rp, v)
			if dep != nil && (dep.Reason != fmt.Sprintf("deprecated-%s-%d", regName(rp), g.verBack(v)) || dep.Version != v.String()) {
				obs.LookupBad = append(obs.LookupBad, "deprecation text of "+regName(rp)+" changed")
			}
			obs.Resolved = append(obs.Resolved, bRes{R: regName(rp), V: g.verBack(v), S: bSrc{K: "rem", Pkg: pkgName(sa.Package()), Sub: sub}, Dep: dep != nil})
		}
	}
	sort.Slice(obs.Resolved, func(i, j int) bool {
		return obs.Resolved[i].R+strconv.Itoa(obs.Resolved[i].V) < obs.Resolved[j].R+strconv.Itoa(obs.Resolved[j].V)
	})
	root, _ := filepath.Abs(e.dir)
	check := func(what string, p string, err error, sub []string, pkg string) {
		if err != nil {
			obs.LookupBad = append(obs.LookupBad, what+": "+err.Error())
			return
		}
		rel, rerr := filepath.Rel(root, p)
		if rerr != nil || rel == ".." || strings.HasPrefix(rel, "../") {
			obs.LookupBad = append(obs.LookupBad, what+": outside the bundle: "+p)
			return
		}
		s := strings.Join(sub, "/")
		fi, serr := os.Stat(p)
		exists := serr == nil
		want := templateDirs[s] || templateFiles[s]
		if exists != want {
			obs.LookupBad = append(obs.LookupBad, fmt.Sprintf("%s: exists=%v want=%v", what, exists, want))
			return
		}
		if exists && !fi.IsDir() {
			b, _ := os.ReadFile(p)
			if string(b) != fmt.Sprintf("content-%d of %s", bodyOf(content[pkg]), s) {
				obs.LookupBad = append(obs.LookupBad, what+": content differs")
			}
		}
		if exists && fi.IsDir() {
			probe := filepath.Join(p, map[string]string{"": "main", "m": "f", "m/m": "g"}[s])
			b, _ := os.ReadFile(probe)
			if !strings.HasPrefix(string(b), fmt.Sprintf("content-%d of ", bodyOf(content[pkg]))) {
				obs.LookupBad = append(obs.LookupBad, what+": directory holds other content")
			}
		}
	}
	for _, n := range c.NeedRem {
		src := g.remote(bSrc{K: "rem", Pkg: n.Pkg, Sub: n.Sub})
		p, err := bundle.LocalPathForRemoteSource(src)
		check("remote "+n.Pkg+"//"+strings.Join(n.Sub, "/"), p, err, n.Sub, n.Pkg)
		// reverse lookup inverts
		if err == nil {
			if back, berr := bundle.SourceForLocalPath(p); berr != nil {
				obs.LookupBad = append(obs.LookupBad, "reverse lookup fails: "+berr.Error())
			} else if fwd, ferr := bundle.LocalPathForSource(back); ferr != nil || fwd != filepath.Clean(p) {
				obs.LookupBad = append(obs.LookupBad, "reverse lookup does not invert for "+p)
			}
		}
	}
	for _, n := range c.NeedReg {
		reg := g.registry(bSrc{K: "reg", Rpkg: n.Rpkg, Sub: n.Sub})
		p, err := bundle.LocalPathForRegistrySource(reg, g.ver(n.V))
		if err != nil {
			obs.LookupBad = append(obs.LookupBad, "registry "+n.Rpkg+": "+err.Error())
			continue
		}
		real, ok := bundle.RegistryPackageSourceAddr(reg.Package(), g.ver(n.V))
		if !ok {
			obs.LookupBad = append(obs.LookupBad, "registry "+n.Rpkg+": no source address")
			continue
		}
		p2, err2 := bundle.LocalPathForRemoteSource(reg.FinalSourceAddr(real))
		if err2 != nil || p2 != p {
			obs.LookupBad = append(obs.LookupBad, "registry "+n.Rpkg+": lookup differs from the joined remote address")
		}
		p3, err3 := bundle.LocalPathForSource(reg.Versioned(g.ver(n.V)))
		if err3 != nil || p3 != p {
			obs.LookupBad = append(obs.LookupBad, "registry "+n.Rpkg+": final-source lookup differs")
		}
		p4, err4 := bundle.LocalPathForFinalRegistrySource(reg.Versioned(g.ver(n.V)))
		if err4 != nil || p4 != p {
			obs.LookupBad = append(obs.LookupBad, "registry "+n.Rpkg+": versioned-source lookup differs")
		}
	}
	ents, _ := os.ReadDir(e.dir)
	for _, de := range ents {
		if strings.HasPrefix(de.Name(), ".tmp-") {
			obs.TmpLeft++
		}
	}
}

// bundleDiff compares two bundles through their accessors, relative to their roots,
// and (files = true) the two directory trees.
func bundleDiff(e *bEnv, a, b *sourcebundle.Bundle, rootA, rootB string, files bool) []string {
	var out []string
	rootA, _ = filepath.Abs(rootA)
	rootB, _ = filepath.Abs(rootB)
	pa, pb := a.RemotePackages(), b.RemotePackages()
	if fmt.Sprint(pa) != fmt.Sprint(pb) {
		out = append(out, "remote packages differ")
	}
	for _, p := range pa {
		ma, mb := a.RemotePackageMeta(p), b.RemotePackageMeta(p)
		if (ma == nil) != (mb == nil) || (ma != nil && (ma.GitCommitID() != mb.GitCommitID() || ma.GitCommitMessage() != mb.GitCommitMessage())) {
			out = append(out, "metadata of "+p.String()+" differs")
		}
		for _, sub := range []string{"", "m", "m/f", "nosuch"} {
			la, ea := a.LocalPathForRemoteSource(p.SourceAddr(sub))
			lb, eb := b.LocalPathForRemoteSource(p.SourceAddr(sub))
			ra, _ := filepath.Rel(rootA, la)
			rb, _ := filepath.Rel(rootB, lb)
			if (ea == nil) != (eb == nil) || ra != rb {
				out = append(out, "lookup of "+p.String()+"//"+sub+" differs")
			}
		}
	}
	ra, rb := a.RegistryPackages(), b.RegistryPackages()
	if fmt.Sprint(ra) != fmt.Sprint(rb) {
		out = append(out, "registry packages differ")
	}
	for _, rp := range ra {
		va, vb := a.RegistryPackageVersions(rp), b.RegistryPackageVersions(rp)
		if fmt.Sprint(va) != fmt.Sprint(vb) {
			out = append(out, "versions of "+rp.String()+" differ")
		}
		for _, v := range va {
			sa, oka := a.RegistryPackageSourceAddr(rp, v)
			sb, okb := b.RegistryPackageSourceAddr(rp, v)
			if oka != okb || sa != sb {
				out = append(out, "source address of "+rp.String()+" differs")
			}
			da, db := a.RegistryPackageVersionDeprecation(rp, v), b.RegistryPackageVersionDeprecation(rp, v)
			if (da == nil) != (db == nil) || (da != nil && *da != *db) {
				out = append(out, "deprecation of "+rp.String()+" differs")
			}
		}
	}
	ca, _ := a.ChecksumV1()
	cb, _ := b.ChecksumV1()
	if ca != cb {
		out = append(out, "checksum differs")
	}
	if files {
		g := arena.NewGamma(0, nil, nil, true)
		ta, tb := g.Snapshot(rootA), g.Snapshot(rootB)
		for k, n := range ta {
			m, ok := tb[k]
			if !ok {
				out = append(out, "missing after extraction: "+k)
				continue
			}
			// contents are not in the arena table: compare bytes directly
			if n.K != m.K || n.M != m.M || strings.Join(n.Tgt, "/") != strings.Join(m.Tgt, "/") {
				out = append(out, fmt.Sprintf("%s: %v vs %v", k, n, m))
			}
			// files and directories below the root keep their modification time to the second (what the archive stores)
			if k != "" && n.K != "l" && files {
				fa, ea := os.Lstat(filepath.Join(rootA, strings.TrimPrefix(k, "?")))
				fb, eb := os.Lstat(filepath.Join(rootB, strings.TrimPrefix(k, "?")))
				if ea == nil && eb == nil && k != "terraform-sources.json" && !fa.ModTime().Round(time.Second).Equal(fb.ModTime()) {
					out = append(out, fmt.Sprintf("modification time of %s: %v vs %v", k, fa.ModTime().Round(time.Second).Unix(), fb.ModTime().Unix()))
				}
			}
			if n.K == "f" {
				x, _ := os.ReadFile(filepath.Join(rootA, strings.TrimPrefix(k, "?")))
				y, _ := os.ReadFile(filepath.Join(rootB, strings.TrimPrefix(k, "?")))
				if !bytes.Equal(x, y) {
					out = append(out, "content of "+k+" differs")
				}
			}
		}
		for k := range tb {
			if _, ok := ta[k]; !ok {
				out = append(out, "extra after extraction: "+k)
			}
		}
	}
	if out == nil {
		out = []string{}
	}
	return out
}

func evEq(a, b [][]interface{}) bool {
	x, _ := json.Marshal(a)
	y, _ := json.Marshal(b)
	if len(a) == 0 && len(b) == 0 {
		return true
	}
	return string(x) == string(y)
}

func builderMain() int {
	props := strings.Split(*flagProps, ",")
	var gammas []int64
	for _, s := range strings.Split(*flagGamma, ",") {
		n, _ := strconv.ParseInt(s, 10, 64)
		gammas = append(gammas, n)
	}
	repeats := *flagN
	if repeats <= 0 {
		repeats = 2
	}
	base, err := os.MkdirTemp(arena.ScratchBase(), "vh-builder-")
	if err != nil {
		fmt.Fprintln(os.Stderr, err)
		return 2
	}
	defer arena.RemoveAll(base)
	acc := cases.NewAcc("builder", *flagMis)
	var seq int64
	cases.Lines(os.Stdin, os.Stderr, *flagWorkers, nil, func(w int, raw []byte) {
		var c bCase
		if err := json.Unmarshal(raw, &c); err != nil || c.Fam != "builder" {
			return
		}
		var rawm map[string]json.RawMessage
		json.Unmarshal(raw, &rawm)
		c.rawAdds, c.rawWorld = rawm["adds"], rawm["world"]
		n := atomic.AddInt64(&seq, 1)
		g := bGamma{gammas[int(n)%len(gammas)]}
		dir, _ := os.MkdirTemp(base, "b-")
		defer os.RemoveAll(dir)
		var obs *bObs
		func() {
			e := newEnv(&c, g, filepath.Join(dir, "t0"))
			os.Mkdir(e.dir, 0755)
			obs = e.obs
			defer func() {
				if r := recover(); r != nil {
					obs.Panic = fmt.Sprint(r)
				}
			}()
			var bundle *sourcebundle.Bundle
			multi := false
			for _, a := range c.Adds {
				if a.C != c.Adds[0].C {
					multi = true
				}
			}
			if multi {
				var followed bool
				bundle, followed = e.buildScheduled(&c)
				if !followed {
					obs.Panic = "infra: the lock-site schedule chosen by TLC could not be followed (a caller did not reach its next site within 10 s)"
					return
				}
			} else {
				bundle = e.build(c.Adds, c.Closed)
			}
			nd := 0
			for _, ev := range obs.Events {
				if ev[0] == "Diag" {
					nd++
				}
			}
			if nd != obs.diagRet {
				obs.DiagsOK = false
			}
			obs.ManifestSame, obs.CanonSame, obs.ConcSame, obs.DirsOK = true, true, true, true
			if bundle != nil {
				e.inspect(bundle)
				sha, _ := manifestOf(e.dir)
				obs.Manifest = sha
				if re, rerr := sourcebundle.OpenDir(e.dir); rerr != nil {
					obs.ReopenDiff = append(obs.ReopenDiff, "re-open fails: "+rerr.Error())
				} else {
					obs.ReopenDiff = bundleDiff(e, bundle, re, e.dir, e.dir, false)
				}
				// the same directory named by a path relative to the working directory
				if cwd, cerr := os.Getwd(); cerr == nil {
					if relDir, rerr := filepath.Rel(cwd, e.dir); rerr == nil {
						if re2, rerr2 := sourcebundle.OpenDir(relDir); rerr2 != nil {
							obs.ReopenDiff = append(obs.ReopenDiff, "re-open by relative path fails: "+rerr2.Error())
						} else {
							for _, d := range bundleDiff(e, bundle, re2, e.dir, e.dir, false) {
								obs.ReopenDiff = append(obs.ReopenDiff, "by relative path: "+d)
							}
							for _, n := range c.NeedRem {
								p1, e1 := bundle.LocalPathForRemoteSource(g.remote(bSrc{K: "rem", Pkg: n.Pkg, Sub: n.Sub}))
								if e1 != nil {
									continue
								}
								if _, e2 := re2.SourceForLocalPath(p1); e2 != nil {
									obs.ReopenDiff = append(obs.ReopenDiff, "by relative path: reverse lookup fails: "+e2.Error())
								}
							}
						}
					}
				}
				var buf bytes.Buffer
				if werr := bundle.WriteArchive(&buf); werr != nil {
					obs.ArchiveDiff = append(obs.ArchiveDiff, "WriteArchive fails: "+werr.Error())
				} else {
					xdir := filepath.Join(dir, "extracted")
					os.Mkdir(xdir, 0755)
					if ex, xerr := sourcebundle.ExtractArchive(bytes.NewReader(buf.Bytes()), xdir); xerr != nil {
						obs.ArchiveDiff = append(obs.ArchiveDiff, "ExtractArchive fails: "+xerr.Error())
					} else {
						obs.ArchiveDiff = bundleDiff(e, bundle, ex, e.dir, xdir, true)
					}
				}
				cs, _ := bundle.ChecksumV1()
				// identical builds, and the canonical order of the same adds, must give the same bundle
				if *flagMode == "conc" && len(c.Adds) >= 2 {
					for r := 0; r < repeats; r++ {
						e3 := newEnv(&c, g, filepath.Join(dir, fmt.Sprintf("c%d", r)))
						os.Mkdir(e3.dir, 0755)
						e3.yield = true
						b3 := e3.buildConcurrent(c.Adds)
						sha3, _ := manifestOf(e3.dir)
						twice := ""
						for k, n := range e3.fetchN {
							if n > 1 {
								twice = k
							}
						}
						if b3 == nil || sha3 != sha || len(e3.obs.Unscripted) != 0 || twice != "" {
							obs.ConcSame = false
							if twice != "" {
								obs.ConcWhy = "package " + twice + " fetched more than once by overlapping Add calls; "
							}
							obs.ConcWhy += fmt.Sprintf("bundle=%v manifest %s vs %s unscripted=%v", b3 != nil, sha3, sha, e3.obs.Unscripted)
						}
					}
				}
				for r := 1; r <= repeats; r++ {
					adds := c.Adds
					if r == repeats {
						adds = append([]bAdd{}, c.Adds...)
						sort.SliceStable(adds, func(i, j int) bool {
							x, _ := json.Marshal(adds[i].Add)
							y, _ := json.Marshal(adds[j].Add)
							return string(x) < string(y)
						})
					}
					e2 := newEnv(&c, g, filepath.Join(dir, fmt.Sprintf("t%d", r)))
					os.Mkdir(e2.dir, 0755)
					b2 := e2.build(adds, true)
					sha2, _ := manifestOf(e2.dir)
					same := b2 != nil && sha2 == sha && len(e2.obs.Unscripted) == 0
					if same {
						cs2, _ := b2.ChecksumV1()
						same = cs2 == cs
					}
					if r == repeats {
						obs.CanonSame = same
					} else if !same {
						obs.ManifestSame = false
					}
				}
			}
		}()
		if strings.HasPrefix(obs.Panic, "infra:") {
			acc.Infra(obs.Panic)
			return
		}
		agree := obs.Panic == "" && evEq(c.Events, obs.Events) && evEq(c.Calls, obs.Calls) &&
			normResults(c.Results) == normResultsObs(c.Adds, obs.Results) &&
			obs.BundleOK == (c.Closed && !c.Poisoned) && len(obs.LookupBad) == 0 && len(obs.Unscripted) == 0 &&
			obs.EarlyOpen == 0 && obs.TmpLeft == 0 && obs.RefusedAfter && obs.ManifestSame && obs.CanonSame && obs.ConcSame && obs.DiagsOK &&
			len(obs.ReopenDiff) == 0 && len(obs.ArchiveDiff) == 0
		if agree && obs.BundleOK {
			pp, _ := json.Marshal(c.Pkgs)
			op, _ := json.Marshal(obs.Pkgs)
			agree = samePkgs(c.Pkgs, obs.Pkgs) && sameRes(c.Resolved, obs.Resolved) && obs.DirsOK
			_ = pp
			_ = op
		}
		key, _ := json.Marshal(struct {
			A []bAdd
			W bWorld
			C [][]interface{}
		}{c.Adds, c.World, c.Calls})
		acc.Count(true, agree, len(c.Events) >= 3, string(key))
		acc.Sample(dropKeys(raw, "v"), 2)
		if !agree {
			acc.Mismatch(obs)
			return
		}
		for _, p := range props {
			if p == "" {
				continue
			}
			k := "c" + strings.TrimPrefix(strings.ToLower(p), "c")
			var ok bool
			if rawv, has := c.V[k]; !has || json.Unmarshal(rawv, &ok) != nil || ok {
				continue
			}
			var wit []interface{}
			json.Unmarshal(c.V["w"+k[1:]], &wit)
			ws := []string{}
			for _, x := range wit {
				ws = append(ws, fmt.Sprint(x))
			}
			var kf string
			json.Unmarshal(c.V["kf"+k[1:]], &kf)
			ob, _ := json.Marshal(obs)
			acc.Flag(cases.Flag{Prop: p, Witness: ws, KF: kf, Case: raw, Obs: ob, Gamma: g.seed})
		}
	})
	acc.Finish(os.Stdout)
	return 0
}

// the model logs a result when an add is refused, returns early (already analysed) or
// finishes its drain; the harness logs one result per add call, in the same order for
// sequential use
func normResultsObs(adds []bAdd, rs []bResult) string { return normResults(rs) }

func samePkgs(a, b []bPkg) bool {
	if len(a) != len(b) {
		return false
	}
	m := map[string]bPkg{}
	for _, x := range a {
		m[x.P] = x
	}
	for _, y := range b {
		if x, ok := m[y.P]; !ok || x.Dir != y.Dir || x.Meta != y.Meta {
			return false
		}
	}
	return true
}

func sameRes(a, b []bRes) bool {
	if len(a) != len(b) {
		return false
	}
	m := map[string]bRes{}
	for _, x := range a {
		m[fmt.Sprintf("%s@%d", x.R, x.V)] = x
	}
	for _, y := range b {
		x, ok := m[fmt.Sprintf("%s@%d", y.R, y.V)]
		if !ok || x.S.Pkg != y.S.Pkg || strings.Join(x.S.Sub, "/") != strings.Join(y.S.Sub, "/") || x.Dep != y.Dep {
			return false
		}
	}
	return true
}
