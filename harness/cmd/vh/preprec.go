package main

import (
	"bufio"
	"encoding/json"
	"fmt"
	"math/rand"
	"os"
	"sync"

	"verifh/internal/arena"
)

// Direction B for package preparation: random fetched package trees (larger
// than the enumerated link / rule universes) go through the real Builder with
// a scripted fetcher; Judge_Prepare computes the L1 prediction for each tree
// and evaluates the C10 / C03 predicates on what the builder left.

func init() { families["preprec"] = prepRecMain }

var prNames = []string{"a", "ab", "b", "f", "g", "k", "l", "p", "s", "x", ".git", ".terraform", "modules"}
var prTargets = [][]string{{"f"}, {"s"}, {"s", "g"}, {"nowhere"}, {"..", "sib", "g"}, {"..", "terraform-sources.json"}, {"..", "..", "v"},
	{"k"}, {"..", "w", "f"}, {"", "A", "T", "w", "f"}, {"", "A", "v"}, {"s", "..", "f"}, {".", "..", "w", "f"}, {"..", "f"}, {"g"},
	{"..", "..", "sib"}, {"..", "l"}, {"."}, {".."}, {"a"}, {"..", "a", "b"}, {".", "f"}}

func randPackage(r *rand.Rand) []arena.PN {
	fn := func(m, t, c int) arena.Node { return arena.Node{K: "f", M: m, T: t, C: c, Tgt: []string{}} }
	tree := []arena.PN{{P: []string{}, N: d7()}, {P: []string{"A"}, N: d7()}, {P: []string{"A", "v"}, N: fn(600, 1, 7)}, {P: []string{"A", "T"}, N: d7()},
		{P: []string{"A", "T", "sib"}, N: d7()}, {P: []string{"A", "T", "sib", "g"}, N: fn(644, 2, 4)}, {P: []string{"A", "T", "w"}, N: d7()}}
	var gen func(dir []string, depth int)
	gen = func(dir []string, depth int) {
		used := map[string]bool{}
		for i, n := 0, 1+r.Intn(4); i < n; i++ {
			name := prNames[r.Intn(len(prNames))]
			if used[name] {
				continue
			}
			used[name] = true
			p := append(append([]string{}, dir...), name)
			switch k := r.Intn(12); {
			case k < 5:
				tree = append(tree, arena.PN{P: p, N: fn([]int{644, 600, 755, 444}[r.Intn(4)], 2, 1+r.Intn(5))})
			case k < 8:
				tree = append(tree, arena.PN{P: p, N: arena.Node{K: "d", M: 755, T: 1, Tgt: []string{}}})
				if depth < 3 && r.Intn(4) != 0 {
					gen(p, depth+1)
				}
			case k < 11:
				tree = append(tree, arena.PN{P: p, N: arena.Node{K: "l", M: 777, T: 99, Tgt: prTargets[r.Intn(len(prTargets))]}})
			default:
				tree = append(tree, arena.PN{P: p, N: arena.Node{K: "p", M: 644, T: 2, Tgt: []string{}}})
			}
		}
	}
	gen([]string{"A", "T", "w"}, 1)
	return tree
}

func prepRecMain() int {
	n := *flagN
	if n <= 0 {
		n = 500
	}
	seed := seedEnv()
	base, err := os.MkdirTemp(arena.ScratchBase(), "vh-preprec-")
	if err != nil {
		fmt.Fprintln(os.Stderr, err)
		return 2
	}
	defer arena.RemoveAll(base)
	out, err := os.Create(*flagOut)
	if err != nil {
		fmt.Fprintln(os.Stderr, err)
		return 2
	}
	defer out.Close()
	bw := bufio.NewWriterSize(out, 1<<20)
	defer bw.Flush()
	var mu sync.Mutex
	infra := 0
	jobs := make(chan int, 64)
	var wg sync.WaitGroup
	for w := 0; w < *flagWorkers; w++ {
		wg.Add(1)
		go func() {
			defer wg.Done()
			for i := range jobs {
				r := rand.New(rand.NewSource(seed*104729 + int64(i)))
				c := prCase{Fam: "prep", Tree: randPackage(r), Rules: json.RawMessage("[]"), Lines: []string{}}
				obs, why := runPrep(base, &c)
				mu.Lock()
				if why != "" {
					infra++
					if infra < 4 {
						fmt.Fprintln(os.Stderr, "preprec:", why)
					}
				} else {
					b, _ := json.Marshal(obs)
					bw.Write(b)
					bw.WriteByte('\n')
				}
				mu.Unlock()
			}
		}()
	}
	for i := 1; i <= n; i++ {
		jobs <- i
	}
	close(jobs)
	wg.Wait()
	fmt.Printf("@@RESULT {\"family\":\"preprec\",\"total\":%d,\"infra\":%d}\n", n, infra)
	return 0
}
