package main

import (
	"bytes"
	"encoding/json"
	"errors"
	"fmt"
	"hash/crc32"
	"io"
	"os"
	"path/filepath"
	"strconv"
	"strings"
	"sync/atomic"

	slug "github.com/hashicorp/go-slug"

	"verifh/internal/arena"
	"verifh/internal/cases"
	"verifh/internal/tarx"
)

func init() { families["unpack"] = unpackMain }

type uEntry struct {
	Name []string `json:"name"`
	K    string   `json:"k"`
	M    int      `json:"m"`
	T    int      `json:"t"`
	C    int      `json:"c"`
	Tgt  []string `json:"tgt"`
}

type uHeader struct {
	Fam   string     `json:"fam"`
	FS0   []arena.PN `json:"fs0"`
	Dst   []string   `json:"dst"`
	SP    [][]string `json:"sp"`
	Allow [][]string `json:"allow"`
}

type uFault struct {
	At   int    `json:"at"`   // entry index (1-based) the fault hits
	Kind string `json:"kind"` // hdr | body
}

type uCase struct {
	Fam   string                     `json:"fam"`
	Hist  []uEntry                   `json:"hist"`
	St    string                     `json:"st"`
	Why   string                     `json:"why"`
	Fs    []arena.PN                 `json:"fs"`
	Fault *uFault                    `json:"fault,omitempty"`
	Wild  []string                   `json:"wild,omitempty"` // paths whose content is unconstrained (partial body)
	V     map[string]json.RawMessage `json:"v"`
}

type uObs struct {
	FaultRuns    int        `json:"fault_runs"`    // byte-offset read faults / truncations injected for this archive
	FaultSilent  int        `json:"fault_silent"`  // ... that returned success without the whole archive materialised
	FaultOutside int        `json:"fault_outside"` // ... that changed something outside dst
	FaultNotes   []string   `json:"fault_notes"`
	MutRuns      int        `json:"mut_runs"`    // corrupted variants of this archive that were unpacked
	MutBad       int        `json:"mut_bad"`     // ... that panicked or did not return
	MutOutside   int        `json:"mut_outside"` // ... that changed something outside dst
	MutNotes     []string   `json:"mut_notes"`
	Hist         []uEntry   `json:"hist"`
	St           string     `json:"st"`
	Fs           []arena.PN `json:"fs"`
	Err          string     `json:"err"`
	Gamma        int64      `json:"gamma"`
	Fault        *uFault    `json:"fault,omitempty"`
}

func unpackTokens(h *uHeader) ([]string, [][2]string) {
	set := map[string]bool{}
	for _, pn := range h.FS0 {
		for _, t := range pn.P {
			set[t] = true
		}
	}
	for _, t := range []string{"a", "b", "c", "f", "p", "s", "t", "u", "l", "x", "nowhere"} {
		set[t] = true
	}
	var toks []string
	for t := range set {
		toks = append(toks, t)
	}
	var pp [][2]string
	for _, p := range h.SP {
		if len(p) == 2 {
			pp = append(pp, [2]string{p[0], p[1]})
		}
	}
	return toks, pp
}

func tarEntries(g *arena.Gamma, root string, hist []uEntry) []tarx.Entry {
	out := make([]tarx.Entry, 0, len(hist))
	for _, e := range hist {
		te := tarx.Entry{Name: g.Spell(root, e.Name), Mode: int64(arena.ModeOf(e.M)), Mtime: arena.TimeOf(e.T).Unix()}
		// entry *names* that are absolute stay literal: "/a" means the archive said "/a"
		if len(e.Name) > 0 && e.Name[0] == "" {
			parts := make([]string, len(e.Name))
			for i, t := range e.Name {
				parts[i] = g.Name(t)
			}
			te.Name = strings.Join(parts, "/")
		}
		switch e.K {
		case "f":
			te.Type = '0'
			te.Body = arena.Content(e.C)
		case "d":
			te.Type = '5'
		case "l":
			te.Type = '2'
			te.Link = g.Spell(root, e.Tgt)
		case "g":
			te.Type = 'g'
			te.Body = []byte(tarx.PaxRecord("comment", "verif-global-header"))
		case "p":
			te.Type = '6'
		case "h":
			te.Type = '1'
			te.Link = g.Spell(root, e.Tgt)
		default:
			te.Type = '7'
		}
		out = append(out, te)
	}
	return out
}

func statusOf(err error) string {
	if err == nil {
		return "ok"
	}
	var ise *slug.IllegalSlugError
	if errors.As(err, &ise) {
		return "illegal"
	}
	return "err"
}

var faultEvery = 8
var mutEvery = 40

// unpackFaults re-runs the archive with the reader failing (or ending) at byte
// offsets of the compressed stream: a successful return must have materialised
// the whole archive, and nothing outside dst may change whatever happens.
func unpackFaults(base string, h *uHeader, g *arena.Gamma, c *uCase, full *uObs, w int, n int64) string {
	tb, _ := tarx.Tar(tarEntries(g, "/nonexistent-root", c.Hist), tarx.PAX)
	_ = tb
	fullFS := arena.FromList(full.Fs)
	// offsets are chosen on the real stream built inside the arena (absolute targets depend on the arena path)
	offsetsFor := func(l int) []int {
		var offs []int
		if os.Getenv("VERIF_TIER") == "thorough" || l <= 64 {
			for i := 0; i < l; i++ {
				offs = append(offs, i)
			}
			return offs
		}
		for i := 0; i < 12; i++ {
			offs = append(offs, i*l/12)
		}
		for i := l - 12; i < l; i++ {
			offs = append(offs, i)
		}
		return offs
	}
	probe, err := os.MkdirTemp(base, fmt.Sprintf("f%d-", w))
	if err != nil {
		return "mkdtemp: " + err.Error()
	}
	defer arena.RemoveAll(probe)
	// the stream is built once per arena root; to keep absolute targets valid every fault run
	// re-creates the arena at the same root
	root := probe + "/r"
	stream := func() []byte {
		t, _ := tarx.Tar(tarEntries(g, root, c.Hist), tarx.PAX)
		return tarx.GzipPlain(t)
	}()
	for _, off := range offsetsFor(len(stream)) {
		for _, trunc := range []bool{false, true} {
			arena.RemoveAll(root)
			if err := os.Mkdir(root, 0755); err != nil {
				return "mkdir: " + err.Error()
			}
			if err := g.Setup(root, h.FS0); err != nil {
				return "setup: " + err.Error()
			}
			rd := &tarx.FaultReader{R: bytes.NewReader(stream), N: off, Err: errors.New("injected read fault"), Truncate: trunc}
			p, _ := slug.NewPacker()
			uerr := p.Unpack(rd, g.Abs(root, h.Dst))
			snap := g.Snapshot(root)
			full.FaultRuns++
			// outside dst
			dstKey := strings.Join(h.Dst, "/")
			for _, pn := range h.FS0 {
				k := strings.Join(pn.P, "/")
				if k == "" || k == dstKey || strings.HasPrefix(k, dstKey+"/") {
					continue
				}
				if o, ok := snap[k]; !ok || !arena.NodeEq(o, arena.FromList([]arena.PN{pn})[k]) {
					full.FaultOutside++
					full.FaultNotes = append(full.FaultNotes, fmt.Sprintf("offset %d trunc=%v: %s changed", off, trunc, k))
				}
			}
			for k := range snap {
				if k != dstKey && !strings.HasPrefix(k, dstKey+"/") {
					if _, ok := arena.FromList(h.FS0)[k]; !ok {
						full.FaultOutside++
						full.FaultNotes = append(full.FaultNotes, fmt.Sprintf("offset %d trunc=%v: %s created", off, trunc, k))
					}
				}
			}
			if uerr == nil && full.St == "ok" && !arena.SameFS(snap, fullFS) {
				full.FaultSilent++
				full.FaultNotes = append(full.FaultNotes, fmt.Sprintf("offset %d trunc=%v: success with a partial tree", off, trunc))
			}
			if uerr == nil && full.St != "ok" {
				full.FaultSilent++
				full.FaultNotes = append(full.FaultNotes, fmt.Sprintf("offset %d trunc=%v: success although the complete stream is rejected", off, trunc))
			}
		}
	}
	if len(full.FaultNotes) > 8 {
		full.FaultNotes = full.FaultNotes[:8]
	}
	return ""
}

func unpackMain() int {
	relAllow = *flagMode == "allowrel"
	unpriv = *flagMode == "unpriv"
	if os.Getenv("VERIF_TIER") == "thorough" {
		mutEvery = 6
	}
	defer uwStopAll()
	props := strings.Split(*flagProps, ",")
	var gammas []int64
	for _, s := range strings.Split(*flagGamma, ",") {
		n, _ := strconv.ParseInt(s, 10, 64)
		gammas = append(gammas, n)
	}
	base, err := os.MkdirTemp(arena.ScratchBase(), "vh-unpack-")
	if err != nil {
		fmt.Fprintln(os.Stderr, "arena:", err)
		return 2
	}
	defer arena.RemoveAll(base)
	if unpriv {
		os.Chmod(base, 0755)
		if why := uwPrepare(base); why != "" {
			// this environment cannot run a process under another user id: nothing is replayed, and the
			// orchestrator records the stage as skipped (the privileged stages are unaffected)
			io.Copy(io.Discard, os.Stdin)
			b, _ := json.Marshal(map[string]interface{}{"family": "unpack", "skipped": why, "total": 0, "agree": 0, "mismatch": 0, "nontrivial": 0, "infra": 0})
			fmt.Printf("@@RESULT %s\n", b)
			return 0
		}
	}
	acc := cases.NewAcc("unpack", *flagMis)
	var hdr *uHeader
	var gs []*arena.Gamma
	var seq int64
	pre := func(raw []byte) bool {
		if !bytes.Contains(raw[:min(len(raw), 40)], []byte(`"unpack-h"`)) && !bytes.Contains(raw, []byte(`"fam":"unpack-h"`)) {
			return false
		}
		var h uHeader
		if err := json.Unmarshal(raw, &h); err != nil || h.Fam != "unpack-h" {
			return false
		}
		hdr = &h
		toks, pp := unpackTokens(&h)
		for _, s := range gammas {
			gs = append(gs, arena.NewGamma(s, toks, pp, false))
		}
		return true
	}
	cases.Lines(os.Stdin, os.Stderr, *flagWorkers, pre, func(w int, raw []byte) {
		var c uCase
		if err := json.Unmarshal(raw, &c); err != nil || c.Fam != "unpack" {
			return
		}
		if hdr == nil {
			acc.Infra("case before header")
			return
		}
		n := atomic.AddInt64(&seq, 1)
		g := gs[int(n)%len(gs)]
		for _, e := range c.Hist {
			// a global-header entry cannot carry a long or non-ASCII name (no extension header applies to it):
			// such a history is replayed with the first (identity) name table
			if e.K == "g" && len(e.Name) > 1 {
				g = gs[0]
			}
		}
		// the variants of a replay (tar format, spelling of dst, fault offset) are a function of the archive, not of
		// the order of arrival: a finding replays the same way, and format and spelling vary independently
		hb, _ := json.Marshal(c.Hist)
		hv := int64(crc32.ChecksumIEEE(hb))
		obs, infra := unpackOnce(base, hdr, g, &c, w, hv)
		if infra != "" {
			acc.Infra(infra)
			return
		}
		obs.FaultNotes = []string{}
		obs.MutNotes = []string{}
		if *flagMode == "mutate" && int(n)%mutEvery == 0 && len(c.Hist) > 0 {
			if msg := unpackMutations(base, hdr, g, &c, obs, w); msg != "" {
				acc.Infra(msg)
				return
			}
			acc.Extra("mutation_runs", int64(obs.MutRuns))
		}
		if *flagMode == "faults" && int(n)%faultEvery == 0 && len(c.Hist) > 0 {
			if msg := unpackFaults(base, hdr, g, &c, obs, w, n); msg != "" {
				acc.Infra(msg)
				return
			}
			acc.Extra("fault_runs", int64(obs.FaultRuns))
		}
		pred := arena.FromList(c.Fs)
		ofs := arena.FromList(obs.Fs)
		for _, wp := range c.Wild {
			if o, ok := ofs[wp]; ok {
				if p, ok2 := pred[wp]; ok2 {
					p.C = o.C
					pred[wp] = p
				}
			}
		}
		agree := obs.St == c.St && arena.SameFS(pred, ofs) && obs.FaultSilent == 0 && obs.FaultOutside == 0 && obs.MutBad == 0 && obs.MutOutside == 0
		key, _ := json.Marshal(struct {
			H []uEntry
			F *uFault
		}{c.Hist, c.Fault})
		acc.Count(true, agree, len(c.Hist) >= 1 && (c.St == "ok" || len(c.Hist) >= 2), string(key))
		acc.Sample(compactCase(raw), 3)
		var cons bool
		if json.Unmarshal(c.V["cons"], &cons) == nil && cons && c.St == "ok" {
			acc.Extra("consistent_and_ok", 1)
		}
		acc.Extra("st_"+c.St, 1)
		if !agree {
			acc.Mismatch(obs)
			return
		}
		for _, p := range props {
			if p == "" {
				continue
			}
			k := "c" + strings.TrimPrefix(strings.ToLower(p), "c")
			var ok bool
			if rawv, has := c.V[k]; !has || json.Unmarshal(rawv, &ok) != nil || ok {
				continue
			}
			var wit []string
			json.Unmarshal(c.V["w"+k[1:]], &wit)
			var kf string
			json.Unmarshal(c.V["kf"+k[1:]], &kf)
			ob, _ := json.Marshal(obs)
			acc.Flag(cases.Flag{Prop: p, Witness: wit, KF: kf, Case: compactCase(raw), Obs: ob, Gamma: g.Seed})
		}
	})
	acc.Finish(os.Stdout)
	return 0
}

// compactCase drops the bulky predicted snapshot from a case for reports.
func compactCase(raw []byte) json.RawMessage {
	var m map[string]json.RawMessage
	if json.Unmarshal(raw, &m) != nil {
		return raw
	}
	b, _ := json.Marshal(m)
	return b
}

func unpackOnce(base string, h *uHeader, g *arena.Gamma, c *uCase, w int, n int64) (*uObs, string) {
	// the arena of a worker is wiped and re-created under the same path for every case: what an earlier Unpack of
	// the process saw at a path (a directory, say) says nothing about what is there now
	root := filepath.Join(base, fmt.Sprintf("w%d", w))
	arena.RemoveAll(root)
	if err := os.Mkdir(root, 0700); err != nil {
		return nil, "mkdir: " + err.Error()
	}
	defer arena.RemoveAll(root)
	if err := g.Setup(root, h.FS0); err != nil {
		return nil, "setup: " + err.Error()
	}
	if unpriv {
		if err := chownTree(root); err != nil {
			return nil, "chown: " + err.Error()
		}
	}
	before := g.Snapshot(root)
	if !arena.SameFS(before, arena.FromList(h.FS0)) {
		return nil, "arena does not project back to FS0: " + strings.Join(arena.Diff(arena.FromList(h.FS0), before), "; ")
	}
	format := []tarx.Format{tarx.PAX, tarx.GNU, tarx.USTAR}[int(n)%3]
	ents := tarEntries(g, root, c.Hist)
	if format == tarx.USTAR {
		for _, e := range ents {
			if len(e.Name) > 100 || len(e.Link) > 100 || !isASCII(e.Name) || !isASCII(e.Link) {
				format = tarx.PAX
			}
		}
	}
	tb, regions := tarx.Tar(ents, format)
	var rd *tarx.FaultReader
	if c.Fault == nil {
		rd = &tarx.FaultReader{R: bytes.NewReader(tarx.GzipPlain(tb)), N: -1}
	} else {
		// fail inside the chosen region: flush at region boundaries so that
		// compressed offsets map to tar regions, then pick an offset by case number
		var flush []int
		for _, r := range regions {
			flush = append(flush, r.Off)
		}
		gzb, marks := tarx.Gzip(tb, flush)
		lo, hi := -1, -1
		for i, r := range regions {
			if r.Entry == c.Fault.At-1 && r.Kind == c.Fault.Kind {
				lo = marks[i]
				if i+1 < len(marks) {
					hi = marks[i+1]
				} else {
					hi = len(gzb)
				}
			}
		}
		if lo < 0 {
			return nil, "fault region not found"
		}
		// strictly inside the region: at least one byte of it missing, none of the next delivered
		off := lo + 5 + int(n)%(max(hi-lo-10, 1))
		if off >= hi {
			off = hi - 1
		}
		rd = &tarx.FaultReader{R: bytes.NewReader(gzb), N: off, Err: errors.New("injected read fault"), Truncate: n%2 == 0}
	}
	dst := g.Abs(root, h.Dst)
	p, _ := slug.NewPacker()
	for _, a := range h.Allow {
		if relAllow {
			// the same allow-list entry spelled relative to dst
			rel, _ := filepath.Rel(dst, g.Abs(root, a))
			slug.AllowSymlinkTarget(rel)(p)
		} else {
			slug.AllowSymlinkTarget(g.Abs(root, a))(p)
		}
	}
	// A Packer is an options object: using it before, for another destination, must not matter.
	// Warm it up with an archive that holds an external link (so that every validation path runs).
	if !relAllow {
		warmUnpack(p, root)
		// ... and once on a directory of the arena outside dst: a directory entry for that directory itself (other
		// mode, other time) followed by an entry that makes the call fail before anything is applied or created
		if ow := g.Abs(root, []string{"A", "w"}); !unpriv {
			if fi, err := os.Lstat(ow); err == nil && fi.IsDir() {
				tb0, _ := tarx.Tar([]tarx.Entry{{Name: "./", Type: '5', Mode: 0755, Mtime: arena.TimeOf(5).Unix()},
					{Name: "zz", Type: '2', Mode: 0777, Link: "../../../outside"}}, tarx.USTAR)
				p.Unpack(bytes.NewReader(tarx.GzipPlain(tb0)), ow)
			}
		}
	}
	if relAllow {
		// ... and once inside the arena, one level above dst: a rejected external link, nothing is created
		tb0, _ := tarx.Tar([]tarx.Entry{{Name: "zz", Type: '2', Mode: 0777, Link: "../../nowhere"}}, tarx.USTAR)
		p.Unpack(bytes.NewReader(tarx.GzipPlain(tb0)), filepath.Dir(dst))
	}
	// dst may be spelled with a trailing slash or a trailing "/." (same directory)
	dst += []string{"", "/", "/."}[int(n/3)%3]
	if unpriv {
		if c.Fault != nil || len(h.Allow) > 0 {
			return nil, "unprivileged replay has no fault / allow-list mode"
		}
		gzb, _ := io.ReadAll(rd)
		rep, infra := unprivUnpack(w, gzb, filepath.Join(base, fmt.Sprintf("job-%d.tgz", w)), dst)
		if infra != "" {
			return nil, infra
		}
		return &uObs{Hist: c.Hist, St: rep.St, Fs: arena.SnapshotList(g.Snapshot(root)), Gamma: g.Seed,
			Err: strings.ReplaceAll(rep.Err+rep.Panic, root, ""), FaultNotes: []string{}}, ""
	}
	var uerr error
	panicked := ""
	func() {
		defer func() {
			if r := recover(); r != nil {
				panicked = fmt.Sprint(r)
			}
		}()
		uerr = p.Unpack(rd, dst)
	}()
	if panicked != "" {
		return &uObs{Hist: c.Hist, St: "panic", Fs: arena.SnapshotList(g.Snapshot(root)), Gamma: g.Seed, Fault: c.Fault, Err: panicked, FaultNotes: []string{}}, ""
	}
	obs := &uObs{Hist: c.Hist, St: statusOf(uerr), Fs: arena.SnapshotList(g.Snapshot(root)), Gamma: g.Seed, Fault: c.Fault}
	if uerr != nil {
		obs.Err = strings.ReplaceAll(uerr.Error(), root, "")
	}
	return obs, ""
}

var relAllow = false
var unpriv = false

// warmUnpack uses p once on a scratch destination outside the arena's abstract root.
func warmUnpack(p *slug.Packer, root string) {
	d, err := os.MkdirTemp(filepath.Dir(root), "warm-")
	if err != nil {
		return
	}
	defer os.RemoveAll(d)
	tb, _ := tarx.Tar([]tarx.Entry{
		{Name: "sub/", Type: '5', Mode: 0755},
		{Name: "sub/in", Type: '2', Mode: 0777, Link: "../x"},
		{Name: "sub/out", Type: '2', Mode: 0777, Link: "../../../outside"},
	}, tarx.USTAR)
	p.Unpack(bytes.NewReader(tarx.GzipPlain(tb)), filepath.Join(d, "deep", "er"))
}

func isASCII(s string) bool {
	for i := 0; i < len(s); i++ {
		if s[i] >= 0x80 {
			return false
		}
	}
	return true
}
