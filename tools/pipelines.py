"""Per-property pipelines: which TLA+ models TLC explores, which replayer binds
them to the code, which judge evaluates mismatching observations."""
import os, json, shutil, subprocess, time, glob, sys

# ----------------------------------------------------------------------------
# stage tables.  A stage = one TLC exploration piped into one replayer.

UNPACK_JUDGE = {"module": "Judge_Unpack", "cfg": "Judge_Unpack.cfg"}


def unpack_trace_stage(tier):
    return dict(kind="trace", name="traces", module="MC_Unpack", cfg="MC_Unpack_q.cfg", overrides={"MaxLen": "0"},
                recorder="unpackrec", n=1500 if tier == "quick" else 20000, trace_module="Trace_Unpack", trace_cfg="Trace_Unpack.cfg",
                timeout=3000)


def corrupt_stage(prop, tier):
    # structured corruption of TLC-generated archives: hostile encodings in every header field (checksum repaired),
    # hostile PAX / GNU extension records spliced in, damaged tar and gzip framing (unpackmut.go)
    return dict(name="corrupt", module="MC_Unpack", cfg="MC_Unpack_nv.cfg", family="unpack", judge=UNPACK_JUDGE, exhaustive=True,
                overrides={"MaxLen": "2", "Alphabet": "<- AlphaFidelityQ" if tier == "quick" else "<- AlphaFidelity"},
                vh_args=["-props", prop, "-gamma", "0", "-mode", "mutate"], timeout=3000)


def unpack_stages(prop, tier, seed):
    st = unpack_stages_a(prop, tier, seed)
    if prop == "C04":
        # AllowSymlinkTarget: A/w allow-listed, spelled absolutely and (mode allowrel) relative to dst on a reused Packer
        for nm, extra in (("allowabs", []), ("allowrel", ["-mode", "allowrel"])):
            st.append(dict(name=nm, module="MC_Unpack", cfg="MC_Unpack_q.cfg", family="unpack", judge=dict(UNPACK_JUDGE, overrides={"Allow": "<- MCAllowW"}),
                           overrides={"MaxLen": "2", "Alphabet": "<- AlphaAllow", "Allow": "<- MCAllowW"},
                           vh_args=["-props", prop, "-gamma", "0,%d" % (seed * 3 + 1)] + extra, exhaustive=True))
    st.append(unpack_trace_stage(tier))
    if prop == "C01" and tier != "quick":
        st.append(corrupt_stage(prop, tier))
    return st


def unpack_stages_a(prop, tier, seed):
    g = "0,%d,%d" % (seed * 3 + 1, seed * 3 + 2)
    va = ["-props", prop, "-gamma", g]
    if prop in ("C01", "C04"):
        if tier == "quick":
            return [
                dict(name="bfs3", module="MC_Unpack", cfg="MC_Unpack_q.cfg", family="unpack",
                     overrides={"MaxLen": "3"}, vh_args=va, judge=UNPACK_JUDGE, exhaustive=True),
            ]
        return [
            dict(name="bfs3", module="MC_Unpack", cfg="MC_Unpack_q.cfg", family="unpack",
                 overrides={"MaxLen": "3", "Alphabet": "<- AlphaThorough"}, vh_args=va, judge=UNPACK_JUDGE,
                 exhaustive=True, timeout=3000),
            dict(name="sim6", module="MC_Unpack", cfg="MC_Unpack_q.cfg", family="unpack",
                 overrides={"MaxLen": "6", "Alphabet": "<- AlphaThorough"}, vh_args=va, judge=UNPACK_JUDGE,
                 sim={"num": 30000, "depth": 8}, workers=1),
        ]
    if prop == "C15":
        # the same machine under an unprivileged caller (FS.tla Unpriv = TRUE: owner bits decide), replayed in a child
        # process that has dropped to uid 65534: read-only files overwritten, directory modes restored in archive order
        unpriv = dict(name="unpriv3", module="MC_Unpack", cfg="MC_Unpack_nv.cfg", family="unpack",
                      overrides={"MaxLen": "3", "Alphabet": "<- AlphaPriv", "Unpriv": "<- MCTrue"},
                      vh_args=["-props", prop, "-gamma", "0,%d" % (seed * 3 + 1), "-mode", "unpriv"],
                      judge=dict(UNPACK_JUDGE, overrides={"Unpriv": "<- MCTrue"}), exhaustive=True, timeout=3000)
        unprivsim = dict(unpriv, name="unprivsim", overrides={"MaxLen": "8", "Alphabet": "<- AlphaPriv", "Unpriv": "<- MCTrue"},
                         sim={"num": 20000, "depth": 10}, workers=1, exhaustive=False)
        if tier == "quick":
            return [unpriv,
                dict(name="fid3", module="MC_Unpack", cfg="MC_Unpack_nv.cfg", family="unpack",
                     overrides={"MaxLen": "3", "Alphabet": "<- AlphaFidelityQ"}, vh_args=va, judge=UNPACK_JUDGE,
                     exhaustive=True),
            ]
        return [
            dict(name="fid3", module="MC_Unpack", cfg="MC_Unpack_nv.cfg", family="unpack",
                 overrides={"MaxLen": "3", "Alphabet": "<- AlphaFidelity"}, vh_args=va, judge=UNPACK_JUDGE,
                 exhaustive=True, timeout=3000),
            dict(name="fidsim", module="MC_Unpack", cfg="MC_Unpack_nv.cfg", family="unpack",
                 overrides={"MaxLen": "10", "Alphabet": "<- AlphaFidelity"}, vh_args=va, judge=UNPACK_JUDGE,
                 sim={"num": 30000, "depth": 12}, workers=1),
            unpriv, unprivsim,
        ]
    raise KeyError(prop)


PACK_JUDGE = {"module": "Judge_Pack", "cfg": "Judge_Pack.cfg"}


def pack_stage(name, universe, rulemode, prop, seed, extra_args=None, **kw):
    # user rules spell names literally: only the identity table is sound where rules refer to names
    g = "0" if universe in ("ignore", "spell", "rootcyc", "lines") else "0,%d" % (seed * 3 + 1)
    d = dict(name=name, module="MC_Pack", cfg="MC_Pack.cfg", family="pack",
             overrides={"Universe": '"%s"' % universe, "RuleMode": '"%s"' % rulemode},
             vh_args=["-props", prop, "-gamma", g] + (extra_args or []), judge=PACK_JUDGE, exhaustive=True)
    d.update(kw)
    return d


def pack_rec_stage(tier):
    # direction B: random trees (names of the specification's name universe, depth <= 4, files / directories / links /
    # fifos, 8 modes, whole and fractional mtimes, 17 link target shapes) x random options, judged by Judge_Pack
    return dict(kind="rec", name="randomtrees", recorder="packrec", n=1200 if tier == "quick" else 20000, judge=dict(PACK_JUDGE, timeout=3000))


def pack_stages(prop, tier, seed):
    q = tier == "quick"
    if prop == "C03":
        st = [pack_stage("ign1", "ignore", "single", prop, seed), prep_stage("bundle1", "rules", "single", prop),
              prep_stage("bundle2", "rules", "pairq" if q else "pair", prop)]
        st.append(pack_stage("ign4", "ignore", "quad", prop, seed))        # two negations with a directory rule right before the second
        st.append(prep_stage("bundle4", "rules", "quad", prop))
        if q:
            st.append(pack_stage("ign2q", "ignore", "pairq", prop, seed))
        else:
            st.append(pack_stage("ign2", "ignore", "pair", prop, seed, timeout=3000))
            st.append(pack_rec_stage(tier))
        return st
    if prop == "C02":
        st = [pack_stage("rt", "rt", "none", prop, seed)]
        if not q:
            st.append(pack_stage("safety", "safety", "none", prop, seed, timeout=3000))
            st.append(pack_stage("ign1", "ignore", "single", prop, seed))
        st.append(pack_rec_stage(tier))
        return st
    if prop in ("C05", "C20", "C19"):
        st = [pack_stage("safety", "safetyq" if q else "safety", "none", prop, seed, timeout=3000)]
        if prop == "C19":
            st.append(pack_stage("rulelines", "lines", "none", prop, seed))
            st.append(pack_stage("rootcyc", "rootcyc", "none", prop, seed))      # the source argument is a link in a cycle
            st.append(dict(name="degenerate", module="MC_Unpack", cfg="MC_Unpack_q.cfg", family="unpack", judge=UNPACK_JUDGE, exhaustive=True,
                           overrides={"MaxLen": "2", "Alphabet": "<- AlphaDegenerate"}, vh_args=["-props", prop, "-gamma", "0"]))
            st += [s2 for s2 in addr_stages("C07", tier, seed)]
            for s2 in st[1:]:
                s2["vh_args"] = ["-props", "C19"]
            st.append(prep_stage("links", "links", "none", prop))
            st.append(corrupt_stage(prop, tier))
            st += bundle_stages(prop, tier, seed)        # all manifest documents, generated field-wise and mutated
        if not q:
            st.append(pack_stage("rt", "rt", "none", prop, seed))
            st.append(pack_stage("ign1", "ignore", "single", prop, seed))
            st.append(pack_rec_stage(tier))
        return st
    if prop == "C16":
        # the second run is the same universe with the replayer (and its workers) built with the Go race detector:
        # "other Pack calls running at the same time" must not even share unsynchronised state
        return [pack_stage("spell", "spell", "none", prop, seed, extra_args=["-mode", "fresh"]),
                pack_stage("spellrace", "spell", "none", prop, seed, extra_args=["-mode", "fresh"], race=True)]
    raise KeyError(prop)


PACK_ASSUME = ["arena.go gamma/pi (order- and prefix-preserving name table, modes, times incl. tenths, contents)",
               "archive/tar + compress/gzip readers (slug read back independently of go-slug)", "TLC",
               "worker subprocess watchdog (12 s for operations that take milliseconds)"]

ADDR_JUDGE = {"module": "Judge_Addr", "cfg": "Judge_Addr.cfg"}


def addr_rec_stage(tier):
    # direction B: strings mutated (1-3 edits: delete / insert / replace / duplicate / swap / cut / splice / case) from 28 valid and
    # near-valid addresses, through the source and final-source parsers; Judge_Addr: policy on whatever is accepted, no panic
    return dict(kind="rec", name="mutated", recorder="addrrec", n=6000 if tier == "quick" else 100000, judge=dict(ADDR_JUDGE, timeout=3000))


def addr_stages(prop, tier, seed):
    q = tier == "quick"
    alg = dict(name="algebra", module="Addr", cfg="MC_Addr.cfg", family="addr", judge=ADDR_JUDGE, exhaustive=True,
               overrides={"Part": '"algebra"', "MaxSub": "2" if q else "4", "MaxRel": "2" if q else "3", "MaxUps": "3" if q else "5"},
               vh_args=["-props", prop], slices=4 if q else 9, timeout=3000)
    syn = dict(name="syntax", module="Addr", cfg="MC_Addr.cfg", family="addr", judge=ADDR_JUDGE, exhaustive=True,
               overrides={"Part": '"syntaxq"' if q else '"syntax"'}, vh_args=["-props", prop], slices=8 if q else 16, timeout=3000)
    if prop == "C11":
        # the join of a requested registry sub-path onto the registry's answer, as the Builder performs it (first and repeated requests)
        return [alg, builder_stage("regsub", prop, seed, {"Adds": "<- MCAddsG", "Pkgs": '{"P1"}', "MaxEdges": "1", "MaxAdds": "2"})]
    if prop == "C07":
        return [syn, addr_rec_stage(tier)]
    if prop == "C06":
        return [syn, alg]
    raise KeyError(prop)


ADDR_ASSUME = ["net/url, terraform-registry-address and go-versions are environment (their results are only constrained by the laws)",
               "TLC string concatenation = Go string concatenation", "TLC"]

BUILDER_JUDGE = {"module": "Judge_Builder", "cfg": "Judge_Builder.cfg"}


def builder_stage(name, prop, seed, overrides, **kw):
    ov = {"Emit": "TRUE"}
    ov.update(overrides)
    d = dict(name=name, module="MC_Builder", cfg="MC_Builder.cfg", family="builder", overrides=ov,
             vh_args=["-props", prop, "-gamma", "%d,%d,%d" % (seed * 6, seed * 6 + 1, seed * 6 + 2)], judge=BUILDER_JUDGE,
             exhaustive=True, timeout=3000)
    d.update(kw)
    return d


def builder_stages(prop, tier, seed):
    q = tier == "quick"
    base = builder_stage("graph", prop, seed, {})
    faults = builder_stage("faults", prop, seed, {"Faults": '{"vers", "src", "fetch"}', "MaxFaults": "1" if q else "2",
                                                  "DiagKinds": '{"none", "warn", "err"}', "MaxEdges": "1", "MaxAdds": "2"})
    vers = builder_stage("versions", prop, seed, {"Vers": "{1, 2, 3}", "AllowedSets": "<- MCAllowed", "DepFlags": "{TRUE, FALSE}",
                                                  "Adds": "<- MCAddsV", "MaxEdges": "0", "MaxAdds": "3", "Pkgs": '{"P1"}',
                                                  "Subs": "<- MCSubs1"})
    fan = builder_stage("fan", prop, seed, {"MaxEdges": "4", "MaxAdds": "1", "Adds": "<- MCAddsR", "RegPkgs": "{}"})
    coal = builder_stage("coalesce", prop, seed, {"Contents": "{1, 2}", "MetaFlags": "{TRUE, FALSE}", "MaxEdges": "1", "Adds": "<- MCAddsR"})
    finders = builder_stage("finders", prop, seed, {"Finders": '{"F1", "F2"}', "LocalRels": "<- MCLocalRelsSelf", "MaxEdges": "2", "MaxAdds": "1",
                                                     "Vers": "{1}", "AllowedSets": "<- MCAllowed1", "Adds": "<- MCAddsF", "MaxDeps": "2"})
    # two concurrent callers: one Add each with up to two dependency edges (quick), two Adds each with one edge (thorough:
    # 4.4 million states, 7.1e5 forced schedules, about 17 minutes)
    sched = builder_stage("sched", prop, seed, {"Callers": '{"c1", "c2"}', "MaxAdds": "1" if q else "2", "Adds": "<- MCAddsR", "RegPkgs": "{}",
                                                 "Concurrent": "TRUE", "MaxEdges": "2" if q else "1", "LocalRels": "<- MCLocalRels0"})
    # three concurrent callers with one Add each (thorough)
    sched3 = builder_stage("sched3", prop, seed, {"Callers": '{"c1", "c2", "c3"}', "MaxAdds": "1", "Adds": "<- MCAddsR", "RegPkgs": "{}",
                                                   "Concurrent": "TRUE", "MaxEdges": "1", "LocalRels": "<- MCLocalRels0"})
    conc = builder_stage("conc", prop, seed, {"Adds": "<- MCAddsR", "RegPkgs": "{}", "MaxEdges": "1", "MaxAdds": "2", "Contents": "{1, 2}"},
                         race=True, vh_args=["-props", prop, "-gamma", "%d" % (seed * 6), "-mode", "conc"])
    # direction B: random worlds larger than the enumerated ones (3 packages x 3 module locations x 2 finders, up to 3 reported
    # dependencies per artifact, 2 registry packages, 1-3 Add calls), no prediction: every observation is judged (VerdictW)
    rand_worlds = builder_stage("randomworlds", prop, seed, {}, generator=["buildergen", "-n", "2500" if q else "50000"], exhaustive=False)
    live = [dict(kind="design", name="live1", module="Live_Builder", cfg="Live_Builder.cfg", properties=["Terminates", "EachDrainEnds", "QueuesBounded"]),
            dict(kind="design", name="live2", module="Live_Builder", cfg="Live_Builder2.cfg", properties=["Terminates", "EachDrainEnds", "QueuesBounded"])]
    # finders that return warnings, with every source added twice: an analysis that ended with warnings is still done
    warnrep = builder_stage("warnrepeat", prop, seed, {"DiagKinds": '{"none", "warn"}', "MaxEdges": "0", "MaxAdds": "2", "Adds": "<- MCAddsR", "RegPkgs": "{}"})
    if prop == "C14":
        return [base, fan, sched, finders, warnrep, conc, rand_worlds] if q else live + [conc, rand_worlds, base, fan, sched, sched3, finders, warnrep, builder_stage("graph3", prop, seed, {"MaxEdges": "3", "Finders": '{"F1", "F2"}', "Adds": "<- MCAdds3", "Pkgs": '{"P1", "P2", "P3"}'}, sim={"num": 40000, "depth": 60}, workers=1)]
    # finders that return warnings together with the dependencies they report
    warn = builder_stage("warn", prop, seed, {"DiagKinds": '{"none", "warn"}', "MaxEdges": "2", "MaxAdds": "1", "Adds": "<- MCAddsR", "RegPkgs": "{}"})
    if prop == "C08":
        return [base, coal, fan, finders, warn, rand_worlds] if q else [base, coal, fan, finders, warn, vers, rand_worlds]
    if prop == "C17":
        # registry sources reported as dependencies: one analysed artifact reports the same registry source with different
        # allowed sets (each request resolves to the newest offered version inside its own set)
        depvers = builder_stage("depvers", prop, seed, {"Adds": "<- MCAddsP", "Pkgs": '{"P1"}', "Subs": "<- MCSubs1", "AllowedSets": "<- MCAllowedD",
                                                        "MaxEdges": "2", "MaxAdds": "1", "LocalRels": "{}"})
        return [vers, depvers]
    if prop == "C12":
        g = "0,%d" % (seed * 3 + 1)
        ufault = dict(name="readfaults", module="MC_Unpack", cfg="MC_Unpack_q.cfg", family="unpack", judge=UNPACK_JUDGE, exhaustive=True,
                      overrides={"MaxLen": "2", "Alphabet": "<- AlphaFidelityQ" if q else "<- AlphaFidelity"},
                      vh_args=["-props", prop, "-gamma", g, "-mode", "faults"], timeout=3000)
        wfault = pack_stage("writefaults", "rt", "none", prop, seed, extra_args=["-mode", "wfaults"])
        return [faults, ufault, wfault]
    regsub = builder_stage("regsub", prop, seed, {"Adds": "<- MCAddsG", "Pkgs": '{"P1"}', "MaxEdges": "1", "MaxAdds": "2"})
    # packages whose trees are the same except for their own rule file must not share a directory
    ignvar = builder_stage("ignorevariant", prop, seed, {"Contents": "{3, 5}", "MaxEdges": "1", "Adds": "<- MCAddsR"})
    if prop == "C13":
        # all sequences of up to four Add calls (with repeats) over the four-add universe, each against its canonical order
        perm4 = builder_stage("perm4", prop, seed, {"MaxAdds": "4", "MaxEdges": "0", "Contents": "{1, 2}"})
        return [coal, ignvar, base, regsub, sched, sched3, conc, perm4, rand_worlds] if not q else [coal, ignvar, regsub, sched, conc, rand_worlds]
    if prop == "C09":
        return [coal] if q else [coal, vers, base]
    raise KeyError(prop)


BUILDER_ASSUME = ["scripted environment (fetcher, registry client, comparable finder values) built from the case's world",
                  "the finder learns which package it analyses from the preceding Download Start/Already tracer event (all under b.mu)",
                  "dirhash / encoding/json are environment (only laws over their results are stated)", "TLC"]

BUNDLE_JUDGE = {"module": "Judge_Bundle", "cfg": "Judge_Bundle.cfg"}


def bundle_stages(prop, tier, seed):
    return [dict(name="manifests", module="Bundle", cfg="MC_Bundle.cfg", family="bundle", judge=BUNDLE_JUDGE, exhaustive=True,
                 overrides={"MaxPkgs": "2" if tier == "quick" else "3"}, vh_args=["-props", prop], workers=2, timeout=3000),
            # direction B: valid manifest documents damaged by 1-3 byte edits / hostile string values / duplicated stretches
            dict(kind="rec", name="mutatedmanifests", recorder="bundlerec", n=20000 if tier == "quick" else 300000,
                 judge=dict(BUNDLE_JUDGE, timeout=3000))]


PREP_JUDGE = {"module": "Judge_Prepare", "cfg": "Judge_Prepare.cfg"}


def prep_stage(name, universe, rulemode, prop, **kw):
    d = dict(name=name, module="MC_Prepare", cfg="MC_Prepare.cfg", family="prep", judge=PREP_JUDGE, exhaustive=True,
             overrides={"PUniverse": '"%s"' % universe, "PRuleMode": '"%s"' % rulemode}, vh_args=["-props", prop], timeout=3000)
    d.update(kw)
    return d


def prep_rec_stage(tier):
    # direction B: random fetched package trees (13 names, depth <= 4, files / directories / links with 22 target shapes /
    # fifos) through the real builder, judged by Judge_Prepare
    return dict(kind="rec", name="randompkgs", recorder="preprec", n=800 if tier == "quick" else 20000, judge=dict(PREP_JUDGE, timeout=3000))


def prep_stages(prop, tier, seed):
    q = tier == "quick"
    if prop == "C10":
        return [prep_stage("links", "links", "none", prop), prep_stage("rules1", "rules", "single", prop),
                prep_stage("rules2", "rules", "pairq" if q else "pair", prop), prep_rec_stage(tier)] + [s for s in builder_stages("C13", tier, seed)[:1] if not s.update(vh_args=["-props", "C10"] + s["vh_args"][2:])]
    return [prep_stage("links", "links", "none", prop), prep_stage("rules1", "rules", "single", prop),
            prep_stage("rules2", "rules", "pairq" if q else "pair", prop)]


PROPS = {
    "C10": dict(stages=prep_stages, key="c10", wkey="w10", kfkey="kf10",
                rule="cases = fetched package trees of spec/MC_Prepare.tla: links at the package root and inside a directory with 12 x 4 "
                     "target shapes (in-package, to a sibling package, to the manifest, out of the bundle, chained, through an ignored "
                     "directory, dangling, to a directory, absolute into the work directory, absolute outside), a fifo at the root or "
                     "inside an ignored directory, rule files; and rule lists over a saturated tree; the real builder fetches the tree "
                     "through a scripted fetcher; judged: package directory sanitary, excluded paths removed, must-fail shapes fail, "
                     "no temporary directory left, arena outside the target unchanged",
                assume=["arena gamma/pi", "scripted fetcher materialises the tree in the builder's work directory", "TLC"]),
    "C18": dict(stages=bundle_stages, key="c18", wkey="w18", kfkey="kf18",
                rule="cases = manifest documents generated field-wise by spec/Bundle.tla (format number 0/1/2, up to 2 (thorough 3) package "
                     "entries from 6 address classes x 13 directory-name classes incl. nested, '.', '..', empty, absolute, '../x', 'a/..', "
                     "backslash, the manifest's own name, a temp-like name; duplicates and aliases; registry entries with valid / invalid "
                     "address, version, target); for each opened bundle: forward lookups of every address x 3 sub-paths, reverse lookups "
                     "incl. '.'/'..' spellings, six outside paths",
                assume=["manifest written with encoding/json", "TLC"]),
    "C08": dict(stages=builder_stages, key="c08", wkey="w08", kfkey="kf08",
                rule="cases = terminal behaviours of spec/Builder.tla (lazy world: what finders report incl. relative paths, what the "
                     "registry lists and returns, what the fetcher delivers) x Add sequences with repeats; replayed with a scripted "
                     "environment; every source of RefClosure is looked up in the real bundle (defined, inside the root, exists iff the "
                     "fetched tree has the sub-path, holds the fetched content; registry lookups equal the joined remote address; "
                     "reverse lookup inverts; metadata unchanged); non-trivial = >= 3 tracer events",
                assume=BUILDER_ASSUME),
    "C09": dict(stages=builder_stages, key="c09", wkey="w09", kfkey="kf09",
                rule="cases = every bundle finished in the exploration (worlds with several packages, content ids whose trees carry "
                     "relative links, an empty directory, 0600/0755/0750 modes, registry packages with versions and deprecations, "
                     "addresses with queries and sub-paths by gamma); the bundle returned by Close is compared, accessor by accessor "
                     "and relative to its root, with OpenDir of its directory and with ExtractArchive(WriteArchive) into another "
                     "directory, plus a file-by-file comparison of the two trees",
                assume=BUILDER_ASSUME),
    "C12": dict(stages=builder_stages, key="c12", wkey="w12", kfkey="kf12",
                rule="(a) Unpack: every depth-<=2 archive of the fidelity alphabet, every 8th of them re-run with the reader failing and "
                     "with the stream truncated at byte offsets of the gzip stream (quick: 24 offsets incl. the last 12 bytes; thorough: "
                     "every offset): success must mean the whole archive, nothing outside dst may change; policy rejections must be "
                     "IllegalSlugErrors; (b) Pack: every 16th round-trip case re-run with the writer failing at every byte offset of the "
                     "slug: Pack must return an error; (c) Builder: cases = behaviours with every single (thorough: pair of) failing environment call (versions, source address, "
                     "fetch) and finder diagnostics (warning / error); the failure must be reported, the builder must refuse all "
                     "further use, no Bundle may come out, the directory must not open as a bundle at any callback boundary, "
                     "finder diagnostics must reach caller and tracer intact with rewritten file names",
                assume=BUILDER_ASSUME),
    "C13": dict(stages=builder_stages, key="c13", wkey="w13", kfkey="kf13",
                rule="cases = behaviours over worlds with several packages / content ids; each is rebuilt with identical inputs and "
                     "with the Add calls in canonical order: manifest bytes, checksum must be equal, same content <=> same directory, "
                     "and the environment must not be asked anything new",
                assume=BUILDER_ASSUME),
    "C14": dict(stages=builder_stages, key="c14", wkey="w14", kfkey="kf14",
                rule="cases = all terminal behaviours of the fault-free model within the bound (chains, diamonds, cycles, "
                     "self-references, registry hops, repeats in the Add sequence); the real tracer event sequence and environment "
                     "call log must equal the predicted ones; counters per package / registry package / version / (source, finder) "
                     "are exactly 1 for required work and never exceed 1; events bracketed; Already only after Success",
                assume=BUILDER_ASSUME),
    "C17": dict(stages=builder_stages, key="c17", wkey="w17", kfkey="kf17",
                rule="cases = offered version lists (orderings of subsets of 3 versions, deprecation flags) x allowed sets x up to "
                     "three requests against the same registry package (cache path) x version tables with pre-releases (gamma); "
                     "selected = Max(offered /\\ allowed), none => error, deprecation = the registry's for that version",
                assume=BUILDER_ASSUME),
    "C06": dict(stages=addr_stages, key="c06", wkey="w06", kfkey="kf06",
                rule="cases = every address string of the field grammar of spec/Addr.tla (type x scheme x userinfo x host x path x "
                     "query x fragment x sub-path, shorthands, registry and versioned registry addresses) and every value derived "
                     "by resolution / joining / Versioned / SourceAddr; for each value handed out: print, re-parse, ==, print again, "
                     "package and versioned round trips, equal prints => equal values across the run; non-trivial = accepted",
                assume=ADDR_ASSUME),
    "C07": dict(stages=addr_stages, key="c07", wkey="w07", kfkey="kf07",
                rule="cases as C06 (syntax part), through the parser and through MakeRemoteSource assembled from parts; grammar "
                     "addresses must be accepted with the predicted accessor record, single-rule violations rejected, and the "
                     "transport policy (Addr.tla Policy) must hold of the accessor record of anything accepted",
                assume=ADDR_ASSUME),
    "C11": dict(stages=addr_stages, key="c11", wkey="w11", kfkey="kf11",
                rule="cases = all (base, relative) pairs over bases of every kind with sub-paths up to the bound and canonical "
                     "relative paths (leading ..s then names), absolute second arguments, registry joins, non-canonical spellings "
                     "(must be rejected), and (base, rel1, rel2) triples for the composition law; expected result strings from "
                     "RefResolve (segment-stack semantics)",
                assume=ADDR_ASSUME),
    "C02": dict(stages=pack_stages, key="c02", wkey="w02", kfkey="kf02",
                rule="cases = (tree, options) pairs of spec/MC_Pack.tla universes; real Pack then real Unpack into an empty "
                     "directory; judged by C02Diffs (RoundTrip.tla) for trees whose links are relative and in-tree; "
                     "non-trivial = slug with >= 2 entries",
                assume=PACK_ASSUME),
    "C03": dict(stages=pack_stages, key="c03", wkey="w03", kfkey="kf03",
                rule="cases = (rule list, options) over a saturated 3-level tree with .git/.terraform/modules and a dereferenced "
                     "external directory; rule lists = all single exclusion rules of the pattern universe and (exclusion, negation) "
                     "pairs; judged: shipped non-directory names = own-path L0 semantics (Ignore.tla SpecExcluded)",
                assume=PACK_ASSUME),
    "C05": dict(stages=pack_stages, key="c05", wkey="w05", kfkey="kf05",
                rule="cases = arenas with in-tree / out-of-tree / sibling-prefix / chained / directory / absolute links x "
                     "dereference x ignore x allow-list; judged by C05Bad (file data only from what the archive name denotes, "
                     "link entries inside the archive root, names inside the root), out-of-tree links rejected as illegal, "
                     "Unpack accepts the slug of a relatively linked tree",
                assume=PACK_ASSUME),
    "C16": dict(stages=pack_stages, key="c16", wkey="w16", kfkey="kf16",
                rule="cases = spelling of src x working directory x preceding call history x concurrent second Pack x ignore "
                     "on/off, each in a fresh process, compared with the canonical spelling run in another fresh process",
                assume=PACK_ASSUME),
    "C19": dict(stages=pack_stages, key="c19", wkey="w19", kfkey="kf19",
                rule="cases = Pack over arenas with link cycles, links to fifos, self-containing external directories, "
                     "with dereferencing on/off; verdict: the call returns (no panic, crash or hang under the watchdog)",
                assume=PACK_ASSUME),
    "C20": dict(stages=pack_stages, key="c20", wkey="w20", kfkey="kf20",
                rule="cases as C05; judged: Meta.Files = entry names in order, Meta.Size = sum of body bytes = sum of header sizes",
                assume=PACK_ASSUME),
    "C01": dict(stages=unpack_stages, key="c01", wkey="w01", kfkey="kf01",
                rule="cases = terminal behaviours of spec/Unpack.tla (entry sequences over the hostile alphabet, "
                     "arena with sibling dx and victims v, w); distinct = distinct entry histories; non-trivial = "
                     "history with >= 2 entries or a successful run",
                assume=["arena.go gamma/pi (name, mode, time, content tables; Lstat walk)", "raw tar writer tarx",
                        "kernel path semantics = FS.tla (checked by agreement on every replay)", "TLC"]),
    "C04": dict(stages=unpack_stages, key="c04", wkey="w04", kfkey="kf04",
                rule="as C01; verdict = no link under dst whose physical resolution (ResLex) leaves dst, no absolute "
                     "target, policy rejection distinguishable",
                assume=["arena.go gamma/pi", "raw tar writer tarx", "FS.tla ResLex = kernel link following", "TLC"]),
    "C15": dict(stages=unpack_stages, key="c15", wkey="w15", kfkey="kf15",
                rule="cases = terminal behaviours over the fidelity alphabet (small path universe, spellings /x ./x, "
                     "files/dirs/links/pax-g/fifo/hardlink, 2 modes, 2 mtimes, 3 contents); judged at ok for "
                     "Consistent histories against RefInterp; non-trivial = >= 2 entries or ok",
                assume=["arena.go gamma/pi", "raw tar writer tarx (USTAR/PAX/GNU)", "TLC"]),
}


# ----------------------------------------------------------------------------

def setup(vc):
    try:
        vc.build_vh()
    except vc.Inconclusive as e:
        vc.log("setup:", e)
        return 2
    bad = 0
    for f in sorted(glob.glob(os.path.join(vc.SPEC, "*.tla"))):
        r = subprocess.run(["java", "-cp", vc.JAR, "tla2sany.SANY", os.path.basename(f)], cwd=vc.SPEC,
                           capture_output=True, text=True)
        if r.returncode != 0 or "*** Errors" in r.stdout or "Fatal errors" in r.stdout:
            vc.log("SANY failed for", f)
            vc.log(r.stdout[-1500:])
            bad += 1
    print("setup: harness built, %d modules parsed, %d parse failures" % (len(glob.glob(os.path.join(vc.SPEC, "*.tla"))), bad))
    return 0 if bad == 0 else 2


def replay(vc, path):
    """Re-run the input of a finding file against /repo's current working tree and print what the real code does now
    (the replayer's result line and the observation).  Exit code 0: replayed; 2: this kind of finding cannot be re-run."""
    flag = json.load(open(path))
    vh = vc.build_vh()
    case = dict(flag.get("case") or {})
    fam = {"packrec": "pack", "preprec": "prep", "addrrec": "addr", "bundlerec": "bundle", "buildergen": "builder"}.get(flag.get("family"), flag.get("family") or case.get("fam"))
    if fam == "trace":
        print("recorded trace (events are in the finding file under case.events); re-record with: vh unpackrec")
        print(json.dumps(case)[:4000])
        return 2
    if fam == "addr" and "case" in case and "fam" not in case:
        case = dict(case["case"])            # an observation of the address family wraps its case
    if fam == "bundle" and "case" in case and "fam" not in case:
        case = dict(case["case"])
        if case.get("raw_b64"):
            import base64
            case["raw"] = base64.b64decode(case.pop("raw_b64")).decode("utf-8", "replace")
    case.setdefault("fam", fam)
    scratch = vc.scratch_dir()
    try:
        lines = []
        if fam == "unpack":
            # the arena header the unpack replayer needs is a constant of the model: let TLC print it
            ov = {"MaxLen": "0", "Emit": "TRUE"}
            if flag.get("stage") in ("allowabs", "allowrel"):
                ov["Allow"] = "<- MCAllowW"
            cfg = vc.write_cfg(scratch, "replay-hdr.cfg", "MC_Unpack_q.cfg", ov)
            r = subprocess.run(vc.tlc_cmd("MC_Unpack", cfg, scratch, workers=1, timeout=120), cwd=scratch, capture_output=True, text=True)
            lines += [l for l in r.stdout.splitlines() if l.startswith('"@@') and "unpack-h" in l]
        lines.append("@@" + json.dumps(case))
        mis = os.path.join(scratch, "replay-mismatch.ndjson")
        args = [vh, fam, "-props", flag["prop"], "-gamma", str(flag.get("gamma", 0)), "-mismatch", mis]
        if flag.get("stage") == "allowrel":
            args += ["-mode", "allowrel"]
        if flag.get("stage") in ("unpriv3", "unprivsim"):
            args += ["-mode", "unpriv"]
        r = subprocess.run(args, input="\n".join(lines) + "\n", capture_output=True, text=True, cwd=scratch)
        print(r.stdout[-3000:])
        if os.path.exists(mis):
            print("observation now:")
            print(open(mis).read()[:6000])
        print("witness recorded in the finding:", json.dumps(flag.get("witness"))[:1000])
        return 0
    finally:
        shutil.rmtree(scratch, ignore_errors=True)


def check(vc, prop, tier, seed, t0):
    if prop not in PROPS:
        vc.log("unknown property", prop)
        return 2
    P = PROPS[prop]
    known = vc.load_known()
    vh = vc.build_vh(race=P.get("race", False))
    scratch = vc.scratch_dir()
    # every arena of this run lives below one directory that is removed with the run, whatever happens to the replayers
    import tempfile
    arena_base = tempfile.mkdtemp(prefix="verif-arena-", dir="/dev/shm" if os.path.isdir("/dev/shm") and os.access("/dev/shm", os.W_OK) else None)
    os.chmod(arena_base, 0o755)
    os.environ["VERIF_ARENA"] = arena_base
    flags, samples = [], []
    states = transitions = total = agree = mismatch = nontrivial = 0
    exhaustive = True
    stage_info = []
    flag_counts = {}
    try:
        only = [x for x in os.environ.get("VERIF_STAGES", "").split(",") if x]     # development aid: run some stages only
        for stage in P["stages"](prop, tier, seed):
            if only and stage["name"] not in only:
                continue
            if stage.get("kind") == "rec":
                pairs, rstats = vc.run_rec_stage(vh, scratch, stage, seed)
                same = sum(1 for _, j in pairs if j.get("same"))
                total += len(pairs)
                agree += same
                mismatch += len(pairs) - same
                nontrivial += len(pairs)
                exhaustive = False
                for obs, j in pairs:
                    v = j["v"]
                    if v.get(P["key"], True):
                        continue
                    kf = v.get(P["kfkey"], "")
                    l1v = j["l1"]["v"]
                    if kf and not j.get("same") and (l1v.get(P["key"], True) or not vc.subset(v.get(P["wkey"], []), l1v.get(P["wkey"], []))):
                        kf = ""
                    k = prop + "|" + kf
                    flag_counts[k] = flag_counts.get(k, 0) + 1
                    flags.append(dict(prop=prop, witness=v.get(P["wkey"], []), kf=kf, case=obs, obs=obs, gamma=obs.get("gamma", 0),
                                      stage=stage["name"], family=stage["recorder"], predicted=j["l1"],
                                      reproduced_by="outcome recorded from the real code on a random input; L1 prediction and verdict computed by the TLA+ judge"))
                stage_info.append(dict(stage=stage["name"], recorder=stage["recorder"], recorded=len(pairs), equal_to_model=same,
                                       drift=len(pairs) - same, recorder_stats=rstats))
                continue
            if stage.get("kind") == "design":
                stats = vc.run_design_stage(scratch, stage)
                states += stats["distinct"]
                transitions += stats["generated"]
                stage_info.append(dict(stage=stage["name"], module=stage["module"], cfg=stage["cfg"], design_only=True,
                                       properties=stage.get("properties"), tlc=stats))
                continue
            if stage.get("kind") == "trace":
                recs, stats = vc.run_trace_stage(vh, scratch, stage, seed)
                acc = sum(1 for r in recs if r["accepted"])
                states += stats["distinct"]
                transitions += stats["generated"]
                total += len(recs)
                agree += acc
                mismatch += len(recs) - acc
                nontrivial += len(recs)
                exhaustive = False
                for r in recs:
                    for src, vv in (("steps", r["steps"]), ("final", r["v"])):
                        if P["key"] not in vv or vv[P["key"]]:
                            continue
                        kf = vv.get(P["kfkey"], "")
                        l1v = r["l1"]["v"]
                        if kf and not r["accepted"] and (l1v.get(P["key"], True) or not vc.subset(vv.get(P["wkey"], []), l1v.get(P["wkey"], []))):
                            kf = ""
                        k = prop + "|" + kf
                        flag_counts[k] = flag_counts.get(k, 0) + 1
                        flags.append(dict(prop=prop, witness=vv.get(P["wkey"], []), kf=kf, case=dict(trace=r["tr"], where=src, seed=seed),
                                          stage=stage["name"], family="trace",
                                          reproduced_by="recorded trace of the real code; predicate evaluated by the trace spec on the recorded state"))
                # a flagged trace carries its own events, so that the finding file can be replayed and read on its own
                want = {f["case"]["trace"] for f in flags if f.get("family") == "trace" and "events" not in f["case"]}
                if want:
                    evs = {}
                    for line in open(os.path.join(scratch, "trace.ndjson")):
                        if len(evs) >= 40 and not any(('"tr":%d,' % t) in line[:60] for t in evs):
                            continue
                        o = json.loads(line)
                        if o.get("tr") in want:
                            evs.setdefault(o["tr"], []).append(o)
                    for f in flags:
                        if f.get("family") == "trace" and f["case"]["trace"] in evs:
                            f["case"]["events"] = evs[f["case"]["trace"]]
                stage_info.append(dict(stage=stage["name"], module=stage["trace_module"], recorded_traces=len(recs), events=stats.get("events"),
                                       accepted=acc, rejected=len(recs) - acc, tlc=stats))
                samples.append(dict(trace_result=recs[0]) if recs else {})
                continue
            res, stats = vc.run_stage(vh, scratch, stage, seed)
            if res.get("skipped"):
                vc.log("stage %s skipped: %s" % (stage["name"], res["skipped"]))
                stage_info.append(dict(stage=stage["name"], module=stage["module"], skipped=res["skipped"], tlc=stats))
                exhaustive = False
                continue
            if res.get("infra", 0) > 0:
                raise vc.Inconclusive("replayer infrastructure failures in stage %s: %s" % (stage["name"], res.get("notes")))
            states += stats["distinct"]
            transitions += stats["generated"]
            total += res["total"]
            agree += res["agree"]
            mismatch += res["mismatch"]
            nontrivial += res["nontrivial"]
            if not stage.get("exhaustive") or stage.get("sim"):
                exhaustive = False
            samples += res.get("samples") or []
            for k, n in (res.get("flag_counts") or {}).items():
                flag_counts[k] = flag_counts.get(k, 0) + n
            if stage.get("race"):
                # a data race between calls the property says do not influence each other: the Go race detector
                # reports only real unsynchronised conflicting accesses; one that involves no go-slug frame is a
                # fault of the replayer itself and makes the run inconclusive
                reps = res.get("race_reports") or []
                lib = [r for r in reps if "github.com/hashicorp/go-slug" in r]
                if len(lib) < len(reps):
                    raise vc.Inconclusive("data race inside the replayer (no library frame) in stage %s: %s" % (stage["name"], [r for r in reps if r not in lib][0][:800]))
                seen_sites = set()
                for r in lib:
                    site = tuple(l.strip() for l in r.splitlines() if "go-slug" in l and ".go:" in l)[:2]
                    if site in seen_sites:
                        continue
                    seen_sites.add(site)
                    k = prop + "|"
                    flag_counts[k] = flag_counts.get(k, 0) + 1
                    flags.append(dict(prop=prop, witness=["data race: " + " / ".join(site)], kf="", case=dict(report=r[:6000]), stage=stage["name"],
                                      family=res["family"], reproduced_by="Go race detector report from the replay of this stage's cases on the real code"))
            for f in res.get("flags") or []:
                f["stage"] = stage["name"]
                f["family"] = res["family"]
                f["reproduced_by"] = "real outcome equals the model's prediction; verdict computed by TLC on that outcome"
                flags.append(f)
            judged = 0
            if res["mismatch"] > 0:
                if not stage.get("judge"):
                    raise vc.Inconclusive("mismatching observations but no judge for stage " + stage["name"])
                pairs = vc.run_judge(scratch, stage["judge"], res["mismatch_log"])
                judged = len(pairs)
                if judged < res["mismatch"]:
                    exhaustive = False
                if stage.get("generator"):
                    # no prediction was made for generated inputs: an observation the judge accepts counts as agreeing
                    okj = sum(1 for _, j in pairs if j["v"].get(P["key"], True))
                    agree += okj
                    mismatch -= okj
                for obs, j in pairs:
                    v = j["v"]
                    if v.get(P["key"], True):
                        continue
                    kf = v.get(P["kfkey"], "")
                    l1v = j["l1"]["v"]
                    # a known finding must also be predicted by the model with a containing witness
                    if kf and (l1v.get(P["key"], True) or not vc.subset(v.get(P["wkey"], []), l1v.get(P["wkey"], []))):
                        kf = ""
                    k = prop + "|" + kf
                    flag_counts[k] = flag_counts.get(k, 0) + 1
                    flags.append(dict(prop=prop, witness=v.get(P["wkey"], []), kf=kf, case=obs, obs=obs, gamma=obs.get("gamma", 0),
                                      stage=stage["name"], family=res["family"], predicted=j["l1"],
                                      reproduced_by="observed outcome differs from the model; verdict computed by the TLA+ judge on the observation"))
            stage_info.append(dict(stage=stage["name"], module=stage["module"], overrides=stage.get("overrides"),
                                   sim=stage.get("sim"), tlc=stats, replayed=res["total"], agree=res["agree"],
                                   drift=res["mismatch"], judged=judged, extra=res.get("extra")))
        viol, hits = vc.classify(prop, flags, known)
        for k, fl in sorted(hits.items()):
            n = flag_counts.get(prop + "|" + k, len(fl))
            ex = fl[0]
            print("KNOWN-FINDING: property=%s %s: %s (%d cases this run; e.g. witness %s)" % (
                prop, k, known[(prop, k)]["what"], n, json.dumps(ex.get("witness"))[:300]))
        rc = 0
        seen = set()
        for f in viol:
            rc = 1
            sig = (json.dumps(f.get("witness"), sort_keys=True), f.get("kf"))
            if sig in seen or len(seen) >= 10:
                continue
            seen.add(sig)
            p = vc.save_finding(prop, f)
            print("VIOLATION property=%s replay=%s" % (prop, p))
        cov = dict(states=states, transitions=transitions, traces_validated_against_impl=total,
                   evaluations=total, distinct_nontrivial=nontrivial, rule=P["rule"], samples=samples[:4],
                   exhaustive=bool(exhaustive and rc == 0), agree=agree, drift=mismatch,
                   flag_counts=flag_counts, known_findings=sorted(hits.keys()), stages=stage_info,
                   repo=vc.REPO)
        if not (only or os.environ.get("VERIF_REPO")):     # evidence describes whole checks of /repo itself
            vc.write_evidence(prop, tier, seed, cov, time.time() - t0, len(viol), P["assume"])
        print("%s %s: %d cases replayed (%d agree, %d drift), %d states / %d transitions, %d violations, %d known-finding classes, %.0fs" % (
            prop, tier, total, agree, mismatch, states, transitions, len(viol), len(hits), time.time() - t0))
        if total == 0:
            raise vc.Inconclusive("no case was replayed")
        return rc
    finally:
        if os.environ.get("VERIF_KEEP"):
            shutil.copytree(scratch, os.environ["VERIF_KEEP"], dirs_exist_ok=True, ignore=shutil.ignore_patterns("states", "*.st", "*.fp"))
        shutil.rmtree(scratch, ignore_errors=True)
        shutil.rmtree(arena_base, ignore_errors=True)
        os.environ.pop("VERIF_ARENA", None)
