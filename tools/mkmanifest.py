import json
props=[json.loads(l) for l in open('/verif/properties.jsonl')]
built = json.load(open('/verif/tools/built.json'))
checks=[]
for p in props:
    pid=p['id']
    if pid not in built: continue
    b=built[pid]
    checks.append({
      "property_id": pid,
      "quick_cmd": "python3 tools/vcheck %s --tier quick" % pid,
      "thorough_cmd": "python3 tools/vcheck %s --tier thorough" % pid,
      "evidence_file": "evidence/%s.json" % pid,
      "replay_cmd_template": "python3 tools/vcheck replay {path}",
      "engine": "TLC + Go replayer (vh)",
      "level_claimed": {"category": "model_checking", "text": b["text"], "design_ref": b.get("design_ref","DESIGN.md section 8")},
      "level_note": b["note"],
      "technique": b["technique"],
    })
na=[{"property_id":p['id'],"reason":"check not built yet in this round (planned: DESIGN.md section 8); no claim is made"} for p in props if p['id'] not in built]
m={"version":1,
   "setup_cmd":"python3 tools/vcheck setup",
   "hooks":{"guard":"verif","enable":"go build -tags verif (harness/cmd/vh is built with it against /repo's working tree by every check)",
            "baseline_off_cmd":"cd /repo && GOFLAGS=-mod=mod GOPROXY=off GOSUMDB=off GOTOOLCHAIN=local go test -vet=off -count=1 -timeout 25m ./...",
            "source_commits": json.load(open('/verif/tools/hook_commits.json')),
            "add_only": True},
   "engines":[{"name":"TLC","path":"/opt/veriftools/tla/tla2tools.jar","serves_properties":sorted(built.keys()),"kind_free_text":"explicit-state model checker for the TLA+ specification in spec/; generates the cases and evaluates every property predicate"},
              {"name":"vh","path":"harness/cmd/vh","serves_properties":sorted(built.keys()),"kind_free_text":"Go replayer: concretises TLC-generated cases, runs the real go-slug API (built from /repo with -tags verif), projects outcomes back to the abstract state"}],
   "checks":checks,
   "notes":"Every check: TLC explores spec/*.tla, each generated case is replayed against the real code, verdicts are computed by TLA+ predicates on real outcomes (directly when the outcome equals the model's prediction, through a TLA+ judge module otherwise). Known findings: known_findings.json.",
   "not_applicable":na}
json.dump(m,open('/verif/MANIFEST.json','w'),indent=1)
print(len(checks),'checks',len(na),'n/a')
