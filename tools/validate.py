import json,jsonschema,sys,glob
jsonschema.validate(json.load(open('/verif/MANIFEST.json')), json.load(open('/root/.vp/MANIFEST.schema.json')))
print('manifest ok')
for f in sorted(glob.glob('/verif/evidence/*.json')):
    jsonschema.validate(json.load(open(f)), json.load(open('/root/.vp/EVIDENCE.schema.json')))
    print('ok', f)
