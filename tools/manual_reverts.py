#!/usr/bin/env python3
"""manual_reverts.py <commit> <worktree>: undo a fix commit semantically where `git revert` conflicts
(later fixes touch the same lines).  Each edit is an exact text replacement; a miss is an error."""
import sys, os

def rep(path, old, new):
    s = open(path).read()
    if old not in s:
        sys.exit("manual revert: text not found in " + path)
    open(path, "w").write(s.replace(old, new, 1))

PW = '''	rel, err := filepath.Rel(root, path)
	if err != nil {
		return false
	}
	return rel != ".." && !strings.HasPrefix(rel, ".."+string(os.PathSeparator))
}'''

def r_0bf2da4(wt):      # containment by string prefix again
    for f in ("slug.go", "internal/unpackinfo/unpackinfo.go"):
        rep(os.path.join(wt, f), PW, "\treturn strings.HasPrefix(path, root)\n}")

def r_3d7ccae(wt):      # a directory entry no longer creates its directory
    rep(os.path.join(wt, "slug.go"), '''			if err := os.MkdirAll(info.Path, 0755); err != nil {
				return fmt.Errorf("failed to create directory %q: %w", info.Path, err)
			}
''', "")

def r_1afa9a0(wt):      # absolute link targets in fetched packages accepted again
    rep(os.path.join(wt, "sourcebundle/builder.go"), '''			if filepath.IsAbs(target) {
				return fmt.Errorf("module package path %q is a symlink with an absolute target", relPath)
			}
''', "")

def r_c267ccc(wt):      # an excluded directory is removed during the walk again
    rep(os.path.join(wt, "sourcebundle/builder.go"), '''				*emptied = append(*emptied, absPath)
				return nil
''', '''				if err := os.RemoveAll(absPath); err != nil {
					return err
				}
				return nil
''')

if __name__ == "__main__":
    f = globals().get("r_" + sys.argv[1])
    if not f:
        sys.exit("no manual revert for " + sys.argv[1])
    f(sys.argv[2])
