#!/bin/bash
# revert_selftest.sh: for every "fix:" commit of /repo, revert it in a scratch worktree and run the owning
# property's quick check against that tree: the violation must come back (a fixed entry suppresses nothing).
. /verif/tools/env.sh
declare -A OWN=( [0bf2da4]=C01 [3d7ccae]=C15 [f7e7de6]=C01 [0d2cc68]=C15 [4054bec]=C01 [f3cc4b0]=C01 [4be9f06]=C19 [d75c0b7]=C16
  [a3e2fb7]=C03 [99d9880]=C03 [febc181]=C03 [89bee85]=C05 [a2197b0]=C19 [d669d39]=C05 [d958749]=C05 [2ac2b7d]=C11 [649ff81]=C07
  [c267ccc]=C03 [82cc1ce]=C03 [1afa9a0]=C10 [d399d73]=C10 [12b740b]=C15 [732adbc]=C02 )
WT=/tmp/revert-wt
LIST="$@"; [ -z "$LIST" ] && LIST="${!OWN[@]}"
for c in $LIST; do
  P=${OWN[$c]}
  rm -rf $WT; git -C /repo worktree prune; git -C /repo worktree add -q --detach $WT HEAD || continue
  if ! git -C $WT revert --no-commit $c >/dev/null 2>&1; then
    # later fixes touch the same lines: undo the fix semantically instead (tools/manual_reverts.py)
    git -C $WT revert --abort >/dev/null 2>&1; git -C $WT reset -q --hard HEAD
    if ! python3 /verif/tools/manual_reverts.py $c $WT; then echo "REVERT $c ($P): conflict, no manual revert, skipped"; git -C /repo worktree remove --force $WT; continue; fi
  fi
  if ! (cd $WT && go build ./... >/dev/null 2>&1); then
    # the textual revert does not compile (later fixes use what it removes): semantic revert instead
    git -C $WT revert --abort >/dev/null 2>&1; git -C $WT reset -q --hard HEAD
    python3 /verif/tools/manual_reverts.py $c $WT && (cd $WT && go build ./... >/dev/null 2>&1) || { echo "REVERT $c ($P): does not build, skipped"; git -C /repo worktree remove --force $WT; continue; }
  fi
  R=$(cd /verif && VERIF_REPO=$WT timeout 3000 python3 tools/vcheck $P --tier quick 2>&1 | egrep "VIOLATION|INCONCL|$P quick" | tail -2)
  N=$(echo "$R" | grep -c VIOLATION)
  echo "REVERT $c ($P): $( [ $N -gt 0 ] && echo detected || echo NOT-DETECTED ) $(echo "$R" | tail -1 | cut -c1-160)"
  (cd /verif && git checkout -q evidence/$P.json 2>/dev/null)
  git -C /repo worktree remove --force $WT
done
