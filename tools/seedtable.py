#!/usr/bin/env python3
"""seedtable.py: print the markdown table of DESIGN.md section 0.6 from seeded/*/meta.json."""
import json, glob, os
V = os.path.dirname(os.path.dirname(os.path.abspath(__file__)))
def cell(s, n=150):
    s = " ".join(str(s).split()).replace("|", "/")
    return s[:n]
print("| seed | changed | needs | first run | now | closed by |")
print("|---|---|---|---|---|---|")
for p in sorted(glob.glob(os.path.join(V, "seeded", "*", "meta.json"))):
    m = json.load(open(p))
    name = os.path.basename(os.path.dirname(p))
    print("| %s | %s | %s | %s | %s | %s |" % (name, cell(m.get("summary", "")), cell(m.get("needs", ""), 140),
          m.get("first_result", "?"), cell(m.get("final_result", "?"), 120), cell(m.get("closed_by", ""), 160)))
