export GOFLAGS=-mod=mod GOPROXY=off GOSUMDB=off GOTOOLCHAIN=local
export PATH=$PATH:/usr/local/go/bin
