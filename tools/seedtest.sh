#!/bin/bash
# seedtest.sh <worktree> <seed-name> <prop> [more props...]: confirm a seeded change and run the owning checks against it.
# The worktree must have the change applied and contain _out/{patch.diff,meta.json,demo}.
set -u
. /verif/tools/env.sh
WT=$1; NAME=$2; shift 2
OUT=/verif/seeded/$NAME
mkdir -p $OUT
[ -f $OUT/meta.json ] && cp $OUT/meta.json /tmp/seed-oldmeta-$$.json
cp $WT/_out/* $OUT/ 2>/dev/null
cd $WT
# bring the worktree to /repo's HEAD, keeping the seeded change (library diff re-applied on the new base)
HEAD=$(git -C /repo rev-parse HEAD)
if [ "$(git rev-parse HEAD)" != "$HEAD" ]; then
  git diff > /tmp/seed-p-$$.diff
  git checkout -q -f --detach $HEAD && (git apply --3way /tmp/seed-p-$$.diff 2>/dev/null || git apply /tmp/seed-p-$$.diff) || echo "REBASE-CONFLICT"
  git reset -q 2>/dev/null
  rm -f /tmp/seed-p-$$.diff
fi
DEMO=$(python3 -c "import json;print(json.load(open('_out/meta.json'))['demo_cmd'])")
echo "== build";  go build ./... && B=ok || B=FAIL
echo "== existing tests with change (demo moved aside)"
mkdir -p /tmp/seed-aside-$$; find . -name 'zz_seed_demo*' -not -path './_out/*' | while read f; do mkdir -p /tmp/seed-aside-$$/$(dirname $f); mv $f /tmp/seed-aside-$$/$f; done
go test -count=1 ./... > /tmp/seed-t-$$.log 2>&1 && T=ok || T=FAIL
(cd /tmp/seed-aside-$$ && find . -type f | while read f; do mv $f $WT/$f; done); rm -rf /tmp/seed-aside-$$
echo "== demo with change"
(eval "$DEMO") > /tmp/seed-d1-$$.log 2>&1 && D1=passes || D1=fails
echo "== demo without change"
# (no git stash: the stash is shared by all worktrees of a repository)
git diff > /tmp/seed-q-$$.diff; git apply -R /tmp/seed-q-$$.diff; (eval "$DEMO") > /tmp/seed-d2-$$.log 2>&1 && D2=passes || D2=fails; git apply /tmp/seed-q-$$.diff; rm -f /tmp/seed-q-$$.diff
echo "build=$B tests=$T demo_with_change=$D1 demo_without_change=$D2"
RES=""
for P in "$@"; do
  for TIER in quick; do
    R=$(cd /verif && VERIF_REPO=$WT timeout 3000 python3 tools/vcheck $P --tier $TIER 2>&1 | grep -E "VIOLATION|INCONCLUSIVE|$P $TIER" | head -4)
    RC=$(echo "$R" | grep -c VIOLATION)
    IC=$(echo "$R" | grep -c INCONCLUSIVE)
    echo "-- $P $TIER: violations_lines=$RC"; echo "$R" | tail -2 | cut -c1-250
    RES="$RES $P/$TIER=$( [ $IC -gt 0 ] && echo inconclusive || ([ $RC -gt 0 ] && echo caught || echo missed) )"
    (cd /verif && git checkout -q evidence/$P.json 2>/dev/null)
  done
done
python3 - <<PY
import json
m=json.load(open('$OUT/meta.json'))
m['confirmed']={'build':'$B','existing_tests_with_change':'$T','demo_with_change':'$D1','demo_without_change':'$D2'}
m['checks_run']='$RES'.split()
import os
if os.path.exists('/tmp/seed-oldmeta-$$.json'):      # keep the recorded history of earlier runs
    o=json.load(open('/tmp/seed-oldmeta-$$.json'))
    for k in ('first_result','final_result','closed_by'):
        if k in o: m[k]=o[k]
    os.remove('/tmp/seed-oldmeta-$$.json')
caught=[r for r in m['checks_run'] if r.endswith('=caught')]
if 'first_result' not in m:
    m['first_result']='caught' if caught else 'missed'
m['final_result']=('caught by '+', '.join(r.split('=')[0].replace('/',' ') for r in caught)) if caught else ('inconclusive' if any(r.endswith('inconclusive') for r in m['checks_run']) else 'missed')
m.setdefault('closed_by','')
json.dump(m,open('$OUT/meta.json','w'),indent=1)
PY
rm -f /tmp/seed-*-$$.log
echo "RESULT $NAME: $RES"
